package main

import (
	"bytes"
	"context"
	"fmt"
	"os"
	"os/exec"
	"strings"
	"sync"
	"sync/atomic"
	"time"
)

type solverSpec struct {
	name string
	cmd  []string
	incr bool
}

func solvers(timeoutMs int) []solverSpec {
	return []solverSpec{
		{"z3-4.8.12", []string{"/usr/bin/z3", "-in", fmt.Sprintf("-t:%d", timeoutMs)}, true},
		{"z3-5.1.0", []string{"z3-new", "-in", fmt.Sprintf("-t:%d", timeoutMs)}, true},
		{"cvc5-1.0", []string{"cvc5", "--lang", "smt2", fmt.Sprintf("--tlimit-per=%d", timeoutMs), "--incremental"}, true},
	}
}

func runSolver(s solverSpec, input string, hard time.Duration) (string, error) {
	ctx, cancel := context.WithTimeout(context.Background(), hard)
	defer cancel()
	cmd := exec.CommandContext(ctx, s.cmd[0], s.cmd[1:]...)
	cmd.Stdin = strings.NewReader(input)
	var out bytes.Buffer
	cmd.Stdout = &out
	cmd.Stderr = &out
	err := cmd.Run()
	if ctx.Err() != nil {
		return out.String(), fmt.Errorf("timeout")
	}
	return out.String(), err
}

// solveBatch discharges all obligations of one function context in a single
// incremental z3 session; the rest go to the per-obligation solver race.
func solveBatch(c *FnCtx, obls []*Obligation, timeoutMs int) {
	// vacuity probes (canary / cover) only need "not provable": give them a short budget of their own
	var probes, real []*Obligation
	for _, o := range obls {
		if o.Kind == "canary" || o.Kind == "cover" {
			probes = append(probes, o)
		} else {
			real = append(real, o)
		}
	}
	if len(probes) > 0 && len(real) > 0 {
		solveBatch1(c, probes, 700)
		solveBatch1(c, real, timeoutMs)
		return
	}
	solveBatch1(c, obls, timeoutMs)
}

func solveBatch1(c *FnCtx, obls []*Obligation, timeoutMs int) {
	var todo []*Obligation
	for _, o := range obls {
		if o.Trivial {
			o.Status = "unsat"
			o.Solver = "simplifier"
			continue
		}
		todo = append(todo, o)
	}
	if len(todo) == 0 {
		return
	}
	var terms []string
	for _, o := range todo {
		terms = append(terms, o.Goal, o.Reach)
	}
	in := c.cone(terms...)
	var b strings.Builder
	b.WriteString(c.preamble(in))
	for _, o := range todo {
		fmt.Fprintf(&b, "(push)\n(assert %s)\n(assert (not %s))\n(check-sat)\n(pop)\n", o.Reach, o.Goal)
	}
	sp := solvers(timeoutMs)[1]
	if d := os.Getenv("GOVC_DUMP_BATCH"); d != "" && len(todo) > 0 {
		os.WriteFile(d+"/"+safeFile(todo[0].Func)+".smt2", []byte(assemble(b.String())), 0o644)
	}
	start := time.Now()
	out, _ := runSolver(sp, assemble(b.String()), time.Duration(len(todo)*timeoutMs+5000)*time.Millisecond)
	el := time.Since(start).Milliseconds()
	var lines []string
	bad := false
	for _, l := range strings.Split(strings.TrimSpace(out), "\n") {
		l = strings.TrimSpace(l)
		switch {
		case l == "sat" || l == "unsat" || l == "unknown" || l == "timeout":
			lines = append(lines, l)
		case strings.HasPrefix(l, "(error"):
			bad = true
			lines = append(lines, l)
		}
	}
	ok := len(lines) == len(todo)
	if ok && !bad {
		for i, o := range todo {
			switch strings.TrimSpace(lines[i]) {
			case "unsat":
				o.Status = "unsat"
				o.Solver = sp.name + "/batch"
				o.Ms = el / int64(len(todo))
			case "sat", "unknown":
				// vacuity probes only need "not provable"; no counterexample is wanted
				if o.Kind == "canary" || o.Kind == "cover" {
					o.Status = strings.TrimSpace(lines[i])
					o.Solver = sp.name + "/batch"
				}
			}
		}
	} else if bad {
		for _, l := range lines {
			if strings.HasPrefix(l, "(error") {
				if len(todo) > 0 {
					todo[0].Note += " SOLVER-ERROR: " + l
				}
				break
			}
		}
	}
	var wg sync.WaitGroup
	for _, o := range todo {
		if o.Status != "" {
			continue
		}
		wg.Add(1)
		go func(o *Obligation) {
			defer wg.Done()
			solveOne(c, o, timeoutMs)
			// no solver decided it within the budget: before this is reported, give it one longer
			// attempt (a loaded machine must not turn a 2 s proof into an alarm)
			if o.Status != "sat" && o.Status != "unsat" && timeoutMs < 30000 && atomic.AddInt32(&retriesLeft, -1) >= 0 {
				o.Status, o.Model = "", ""
				solveOne(c, o, timeoutMs*3)
				if o.Status == "sat" || o.Status == "unsat" {
					o.Note += " (decided only on the retry with a 3x budget)"
				} else {
					o.Note += " (undecided also with a 3x budget)"
				}
			}
		}(o)
	}
	wg.Wait()
}

// retriesLeft: how many undecided obligations of one run get the longer second attempt (a change that
// leaves many obligations undecided must not make the quick check slow)
var retriesLeft int32 = 3

// solveOne races the three solvers on one obligation; the first definitive
// answer (sat / unsat) wins and the others are cancelled.
func solveOne(c *FnCtx, o *Obligation, timeoutMs int) {
	query := c.queryFor(o)
	o.Query = query
	type res struct {
		solver string
		status string
		ms     int64
		raw    string
	}
	sps := solvers(timeoutMs)
	ch := make(chan res, len(sps))
	ctx, cancel := context.WithCancel(context.Background())
	defer cancel()
	for _, sp := range sps {
		go func(sp solverSpec) {
			start := time.Now()
			out, err := runSolverCtx(ctx, sp, query, time.Duration(timeoutMs+3000)*time.Millisecond)
			ms := time.Since(start).Milliseconds()
			first := firstLine(out)
			st := first
			if st != "sat" && st != "unsat" {
				switch {
				case err != nil && err.Error() == "timeout":
					st = "timeout"
				case strings.HasPrefix(first, "(error"):
					st = "error"
				default:
					st = "unknown"
				}
			}
			ch <- res{solver: sp.name, status: st, ms: ms, raw: out}
		}(sp)
	}
	var got []res
	for i := 0; i < len(sps); i++ {
		r := <-ch
		got = append(got, r)
		if r.status == "unsat" {
			o.Status, o.Solver, o.Ms = "unsat", r.solver, r.ms
			return
		}
		if r.status == "sat" {
			o.Status, o.Solver, o.Ms = "sat", r.solver, r.ms
			cancel()
			// values of the source-level variables in the counterexample
			var names, terms []string
			for n, tm := range o.Vars {
				names = append(names, n)
				terms = append(terms, tm)
			}
			gv := ""
			if len(terms) > 0 {
				gv = "(get-value (" + strings.Join(terms, " ") + "))\n"
			}
			// the cone of the query may lack symbols used only by Vars: extend it
			q2 := c.queryWith(o, terms)
			out, _ := runSolver(sps[1], q2+gv, time.Duration(timeoutMs+3000)*time.Millisecond)
			if !strings.HasPrefix(strings.TrimSpace(out), "sat") {
				out, _ = runSolver(sps[0], q2+gv, time.Duration(timeoutMs+3000)*time.Millisecond)
			}
			o.Model = out
			o.Values = parseValues(out, names, terms)
			return
		}
	}
	// second attempt: `ix` is exactly `+` (it exists only to give quantifier patterns a handle);
	// with it inlined the query is equivalent and usually quantifier-free enough for a model
	if strings.Contains(query, "(ix ") {
		q2 := inlineIx(query)
		for _, sp := range []solverSpec{sps[1], sps[0]} {
			start := time.Now()
			out, _ := runSolver(sp, q2, time.Duration(timeoutMs+3000)*time.Millisecond)
			switch firstLine(out) {
			case "unsat":
				o.Status, o.Solver, o.Ms = "unsat", sp.name+"/ix-inlined", time.Since(start).Milliseconds()
				return
			case "sat":
				o.Status, o.Solver, o.Ms = "sat", sp.name+"/ix-inlined", time.Since(start).Milliseconds()
				var names, terms []string
				for n, tm := range o.Vars {
					names = append(names, n)
					terms = append(terms, tm)
				}
				gv := ""
				if len(terms) > 0 {
					gv = "(get-value (" + strings.Join(terms, " ") + "))\n"
				}
				out2, _ := runSolver(sp, inlineIx(c.queryWith(o, terms))+gv, time.Duration(timeoutMs+3000)*time.Millisecond)
				o.Model = out2
				o.Values = parseValues(out2, names, terms)
				return
			}
		}
	}
	// third attempt, only to obtain a *candidate* counterexample for replay: drop the quantified
	// assumptions (weaker path condition). The obligation stays "unknown"; the candidate is
	// believed only if it reproduces on the real code.
	{
		q3 := stripAssumedForalls(inlineIx(query))
		var names, terms []string
		for n, tm := range o.Vars {
			names = append(names, n)
			terms = append(terms, tm)
		}
		if len(terms) > 0 {
			q3 = stripAssumedForalls(inlineIx(c.queryWith(o, terms))) + "(get-value (" + strings.Join(terms, " ") + "))\n"
		}
		out, _ := runSolver(sps[1], q3, time.Duration(timeoutMs+3000)*time.Millisecond)
		if firstLine(out) == "sat" {
			o.Values = parseValues(out, names, terms)
			o.Candidate = true
		}
	}
	o.Status = "unknown"
	var sb strings.Builder
	for _, r := range got {
		fmt.Fprintf(&sb, "%s: %s (%d ms) %s\n", r.solver, r.status, r.ms, firstLine(r.raw))
	}
	o.Model = sb.String()
}

func runSolverCtx(parent context.Context, s solverSpec, input string, hard time.Duration) (string, error) {
	ctx, cancel := context.WithTimeout(parent, hard)
	defer cancel()
	cmd := exec.CommandContext(ctx, s.cmd[0], s.cmd[1:]...)
	cmd.Stdin = strings.NewReader(input)
	var out bytes.Buffer
	cmd.Stdout = &out
	cmd.Stderr = &out
	err := cmd.Run()
	if ctx.Err() != nil {
		return out.String(), fmt.Errorf("timeout")
	}
	return out.String(), err
}

func firstLine(s string) string {
	s = strings.TrimSpace(s)
	if i := strings.IndexByte(s, '\n'); i >= 0 {
		return s[:i]
	}
	return s
}

// parseValues reads a (get-value ...) answer: ((term value) ...)
func parseValues(out string, names, terms []string) map[string]string {
	res := map[string]string{}
	i := strings.Index(out, "((")
	if i < 0 {
		return res
	}
	body := out[i:]
	for k, tm := range terms {
		j := strings.Index(body, "("+tm+" ")
		if j < 0 {
			continue
		}
		rest := body[j+len(tm)+2:]
		// value up to the matching close paren
		depth := 0
		end := 0
		for end < len(rest) {
			ch := rest[end]
			if ch == '(' {
				depth++
			} else if ch == ')' {
				if depth == 0 {
					break
				}
				depth--
			}
			end++
		}
		v := strings.TrimSpace(rest[:end])
		if strings.HasPrefix(v, "(- ") {
			v = "-" + strings.TrimSuffix(v[3:], ")")
		}
		res[names[k]] = v
	}
	return res
}

func inlineIx(q string) string {
	var b strings.Builder
	for _, l := range strings.Split(q, "\n") {
		if strings.HasPrefix(l, "(declare-fun ix ") || (strings.HasPrefix(l, "(assert (forall ((a Int) (b Int))") && strings.Contains(l, "(ix a b)")) {
			continue
		}
		b.WriteString(strings.ReplaceAll(l, "(ix ", "(+ "))
		b.WriteByte('\n')
	}
	return b.String()
}

// stripAssumedForalls replaces (forall ...) subterms inside the path-condition definitions
// (define-fun |R...|) by true.
func stripAssumedForalls(q string) string {
	var b strings.Builder
	for _, l := range strings.Split(q, "\n") {
		if strings.HasPrefix(l, "(define-fun |R") && strings.Contains(l, "(forall ") {
			l = dropForalls(l)
		}
		b.WriteString(l)
		b.WriteByte('\n')
	}
	return b.String()
}

func dropForalls(l string) string {
	for {
		i := strings.Index(l, "(forall ")
		if i < 0 {
			return l
		}
		depth := 0
		inq := false
		j := i
		for ; j < len(l); j++ {
			switch l[j] {
			case '|':
				inq = !inq
			case '(':
				if !inq {
					depth++
				}
			case ')':
				if !inq {
					depth--
				}
			}
			if depth == 0 && j > i {
				break
			}
		}
		l = l[:i] + "true" + l[j+1:]
	}
}
