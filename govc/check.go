package main

import (
	"bufio"
	"encoding/json"
	"flag"
	"fmt"
	"os"
	"path/filepath"
	"regexp"
	"sort"
	"strconv"
	"strings"
	"time"
)

// ---- property configuration (/verif/props/props.json) ---------------------------

type Selector struct {
	Func  string   `json:"func"`  // regexp on function key
	Kinds []string `json:"kinds"` // obligation kinds or families ("lock", "safe")
	Name  string   `json:"name"`  // optional regexp on the obligation name
	re    *regexp.Regexp
	nre   *regexp.Regexp
}

type NotClaimed struct {
	Pattern string `json:"pattern"` // regexp on obligation name
	Reason  string `json:"reason"`
	re      *regexp.Regexp
}

type PropConfig struct {
	ID            string       `json:"id"`
	Select        []Selector   `json:"select"`
	NotClaimed    []NotClaimed `json:"not_claimed"`
	MinObl        int          `json:"min_obligations"`
	RequiredFuncs []string     `json:"required_funcs"` // function keys that must exist and yield obligations
	Lemmas        []string     `json:"lemmas"`         // files under /verif/spec/lemmas
	Assumptions   []string     `json:"assumptions"`
	Outside       []string     `json:"outside"`
	Bounded       []string     `json:"bounded"`
}

func loadProps(path string) (map[string]*PropConfig, error) {
	b, err := os.ReadFile(path)
	if err != nil {
		return nil, err
	}
	var list []*PropConfig
	if err := json.Unmarshal(b, &list); err != nil {
		return nil, err
	}
	out := map[string]*PropConfig{}
	for _, p := range list {
		for i := range p.Select {
			p.Select[i].re, err = regexp.Compile(p.Select[i].Func)
			if err != nil {
				return nil, err
			}
			if p.Select[i].Name != "" {
				p.Select[i].nre, err = regexp.Compile(p.Select[i].Name)
				if err != nil {
					return nil, err
				}
			}
		}
		for i := range p.NotClaimed {
			p.NotClaimed[i].re, err = regexp.Compile(p.NotClaimed[i].Pattern)
			if err != nil {
				return nil, err
			}
		}
		out[p.ID] = p
	}
	return out, nil
}

func (p *PropConfig) selects(o *Obligation) bool {
	for _, s := range p.Select {
		if !s.re.MatchString(o.Func) {
			continue
		}
		if o.Kind == "contract" {
			return true // a clause that no longer fits the code is never silently dropped
		}
		if s.nre != nil && !s.nre.MatchString(o.Name) {
			continue
		}
		if len(s.Kinds) == 0 || o.Kind == "canary" || o.Kind == "cover" {
			return true
		}
		fam := strings.SplitN(o.Kind, ".", 2)[0]
		for _, k := range s.Kinds {
			if k == o.Kind || k == fam {
				return true
			}
		}
	}
	return false
}

func (p *PropConfig) funcRe() *regexp.Regexp {
	var parts []string
	for _, s := range p.Select {
		parts = append(parts, "(?:"+s.Func+")")
	}
	return regexp.MustCompile(strings.Join(parts, "|"))
}

// ---- known findings --------------------------------------------------------------------

type Finding struct {
	Prop       string
	Obligation string
	What       string
}

func loadFindings(path string) ([]Finding, error) {
	f, err := os.Open(path)
	if err != nil {
		if os.IsNotExist(err) {
			return nil, nil
		}
		return nil, err
	}
	defer f.Close()
	var out []Finding
	sc := bufio.NewScanner(f)
	for sc.Scan() {
		line := strings.TrimSpace(sc.Text())
		if !strings.HasPrefix(line, "finding:") {
			continue
		}
		rest := strings.TrimSpace(line[len("finding:"):])
		var fd Finding
		for {
			w, r := splitWord(rest)
			if strings.HasPrefix(w, "property=") {
				fd.Prop = w[len("property="):]
				rest = r
				continue
			}
			if strings.HasPrefix(w, "obligation=") {
				fd.Obligation = w[len("obligation="):]
				rest = r
				continue
			}
			break
		}
		fd.What = rest
		out = append(out, fd)
	}
	return out, sc.Err()
}

// ---- evidence ----------------------------------------------------------------------------

type oblSample struct {
	Name   string `json:"name"`
	Pos    string `json:"pos"`
	Solver string `json:"solver"`
	Ms     int64  `json:"ms"`
	Status string `json:"status"`
}

type Evidence struct {
	PropertyID  string                 `json:"property_id"`
	Tier        string                 `json:"tier"`
	Seed        int                    `json:"seed"`
	Level       string                 `json:"level"`
	Coverage    map[string]interface{} `json:"coverage"`
	Assumptions []string               `json:"assumptions"`
	WallS       float64                `json:"wall_s"`
	Violations  int                    `json:"violations"`
}

var globalTrusted = []string{
	"golang.org/x/tools go/packages + go/types + go/ssa v0.29.0 build the same program the Go compiler does",
	"z3 4.8.12 / z3 5.1.0 / cvc5 1.0 are sound when they answer unsat",
	"govc (this VC generator): SSA->SMT translation, heap model, lock/monitor rules (mitigated by canaries, cover checks and the must-fail corpus in /verif/seeded and /verif/selftest)",
	"integers are mathematical with range assumptions on loads/parameters; unsigned arithmetic wraps; signed overflow assumed absent",
	"library contracts in govc/calls.go libModels (sync, sync/atomic, encoding/binary.BigEndian, bytes.HasPrefix/Equal, time.After/AfterFunc; errors.As/Is are false for a nil error; strings.Index returns -1 or a position where the substring fits) are trusted",
	"uncontracted module calls havoc the heap variables their transitive bodies may write (syntactic frame) and return arbitrary values",
	"external library calls only write byte slices / cells passed to them",
	"pointer parameters, receivers and fields not declared nullable are non-nil (policy, DESIGN 4)",
	"pp.GetPrivate().(*T) yields the non-nil value the protocol's AddPipe stored with SetPrivate (caller history, not modelled); every other x.(*T) result must be proved non-nil before it is dereferenced",
}

func cmdCheck(args []string) {
	fs := flag.NewFlagSet("check", flag.ExitOnError)
	dir := fs.String("dir", "/repo", "repository")
	tier := fs.String("tier", "", "quick|thorough")
	propsPath := fs.String("props", "/verif/props/props.json", "property configuration")
	findingsPath := fs.String("findings", "/verif/known_findings.txt", "known findings")
	outDir := fs.String("out", "/verif", "where evidence/ and out/ live")
	lemmaDir := fs.String("lemmas", "/verif/spec/lemmas", "lemma files")
	noAdequacy := fs.Bool("noadequacy", false, "thorough tier: skip the adequacy stage (used by the stage itself)")
	fs.Parse(args)
	repoDir = *dir
	if fs.NArg() < 1 {
		fmt.Println("usage: govc check [flags] <property id>")
		os.Exit(2)
	}
	id := fs.Arg(0)
	if *tier == "" {
		*tier = os.Getenv("VERIF_TIER")
	}
	if *tier == "" {
		*tier = "quick"
	}
	seed, _ := strconv.Atoi(os.Getenv("VERIF_SEED"))
	start := time.Now()
	props, err := loadProps(*propsPath)
	if err != nil {
		fmt.Println("cannot load props:", err)
		os.Exit(2)
	}
	pc := props[id]
	if pc == nil {
		fmt.Println("no configuration for property", id)
		os.Exit(2)
	}
	findings, err := loadFindings(*findingsPath)
	if err != nil {
		fmt.Println("cannot load findings:", err)
		os.Exit(2)
	}
	g, err := loadGen(*dir)
	if err != nil {
		fmt.Println("LOAD-ERROR:", err)
		os.Exit(2)
	}
	timeout := 5000
	if *tier == "thorough" {
		timeout = 60000
	}
	g.canary = true
	var renamed []string
	for fk, m := range g.alias {
		if pc.funcRe().MatchString(fk) {
			for o, n := range m {
				renamed = append(renamed, fmt.Sprintf("%s: %s -> %s", fk, o, n))
			}
		}
	}
	sort.Strings(renamed)
	for _, r := range renamed {
		fmt.Println("RENAMED-VARIABLE (contracts follow it):", r)
	}
	res := g.runAll(pc.funcRe(), nil, timeout, pc.selects)
	// a contract whose function no longer exists (removed or renamed method): the behaviour it
	// pinned down is gone with it
	for _, mf := range g.missingContractFuncs() {
		if pc.funcRe().MatchString(mf.fnKey) {
			res.obls = append(res.obls, &Obligation{Kind: "contract", Func: mf.fnKey, Name: fmt.Sprintf("contract:%s:%s:%d:missing-function", mf.fnKey, mf.file, mf.line),
				Status: "sat", Note: "the code no longer has the function this contract is written for"})
		}
	}
	broken := false
	for _, e := range g.ann.errs {
		fmt.Println("ANNOTATION-ERROR:", e)
		broken = true
	}
	for _, e := range res.errs {
		fmt.Println("TRANSLATION-ERROR:", e)
		broken = true
	}
	// classification
	isKnown := func(name string) *Finding {
		for i := range findings {
			if findings[i].Prop == id && findings[i].Obligation == name {
				return &findings[i]
			}
		}
		return nil
	}
	notClaimed := func(name string) string {
		for _, nc := range pc.NotClaimed {
			if nc.re.MatchString(name) {
				return nc.Reason
			}
		}
		return ""
	}
	var violations []*Obligation
	var known []string
	var notClaimedList []string
	byKind := map[string]int{}
	bySolver := map[string]int{}
	funcs := map[string]bool{}
	obligations, discharged := 0, 0
	var solverMs int64
	var samples []oblSample
	canaryTotal, canaryRefuted, coverTotal, coverOK := 0, 0, 0, 0
	var coverFail []*Obligation
	sort.Slice(res.obls, func(i, j int) bool { return res.obls[i].Name < res.obls[j].Name })
	for _, o := range res.obls {
		switch o.Kind {
		case "canary":
			canaryTotal++
			if o.Status != "unsat" {
				canaryRefuted++ // sat, or unknown in the presence of quantified axioms: in any case not provable
			} else {
				fmt.Printf("VACUITY: canary %s came back unsat: preconditions/invariants of %s are contradictory\n", o.Name, o.Func)
				broken = true
			}
			continue
		case "cover":
			coverTotal++
			if o.Status != "unsat" {
				coverOK++
			} else {
				coverFail = append(coverFail, o)
			}
			continue
		}
		if r := notClaimed(o.Name); r != "" {
			notClaimedList = append(notClaimedList, o.Name+" — "+r)
			continue
		}
		if o.Status != "unsat" {
			if f := isKnown(o.Name); f != nil {
				known = append(known, o.Name)
				fmt.Printf("KNOWN-FINDING: property=%s %s [obligation %s]\n", id, f.What, o.Name)
				continue
			}
			violations = append(violations, o)
			obligations++
			continue
		}
		obligations++
		discharged++
		byKind[o.Kind]++
		bySolver[o.Solver]++
		funcs[o.Func] = true
		solverMs += o.Ms
		if len(samples) < 12 && !o.Trivial {
			samples = append(samples, oblSample{o.Name, o.Pos, o.Solver, o.Ms, "discharged"})
		}
	}
	// an unreachable return is a vacuity alarm -- unless an obligation of that function failed
	// (the failed goal is assumed afterwards, which legitimately cuts the path)
	failedFn := map[string]bool{}
	for _, o := range violations {
		failedFn[o.Func] = true
	}
	for _, k := range known {
		for _, o := range res.obls {
			if o.Name == k {
				failedFn[o.Func] = true
			}
		}
	}
	for _, o := range coverFail {
		if failedFn[o.Func] {
			coverOK++
			continue
		}
		fmt.Printf("VACUITY: %s unreachable under the contract (%s)\n", o.Name, o.Pos)
		broken = true
	}
	// vacuity: counts and required functions
	if obligations < pc.MinObl {
		fmt.Printf("VACUITY: only %d obligations generated for %s (floor %d)\n", obligations, id, pc.MinObl)
		broken = true
	}
	for _, rf := range pc.RequiredFuncs {
		if !funcs[rf] {
			found := false
			for _, o := range res.obls {
				if o.Func == rf {
					found = true
					break
				}
			}
			if !found {
				fmt.Printf("VACUITY: required function %s produced no obligations (renamed or removed?)\n", rf)
				broken = true
			}
		}
	}
	// lemmas
	lemmaOK, lemmaTotal := 0, 0
	for _, lf := range pc.Lemmas {
		lemmaTotal++
		name := "lemma:" + id + ":" + strings.TrimSuffix(filepath.Base(lf), ".smt2")
		st, solver, ms := runLemma(filepath.Join(*lemmaDir, lf), timeout)
		obligations++
		if st == "unsat" {
			lemmaOK++
			discharged++
			byKind["lemma"]++
			bySolver[solver]++
			solverMs += ms
			samples = append(samples, oblSample{name, "spec/lemmas/" + lf, solver, ms, "discharged"})
		} else {
			violations = append(violations, &Obligation{Name: name, Kind: "lemma", Status: st, Pos: "spec/lemmas/" + lf, Note: "lemma not proved"})
		}
	}
	// thorough tier: independent re-solve of every discharged obligation, adequacy on scratch copies
	var cross *crossStats
	var adeq *adequacy
	if *tier == "thorough" {
		var dis []*Obligation
		for _, o := range res.obls {
			if o.Kind != "canary" && o.Kind != "cover" && o.Status == "unsat" {
				dis = append(dis, o)
			}
		}
		cross = crossCheck(res, dis, 20000)
		for _, d := range cross.Disagree {
			fmt.Println("SOLVER-DISAGREEMENT:", d)
			broken = true
		}
		if !*noAdequacy && len(violations) == 0 {
			self, _ := os.Executable()
			adeq = runAdequacy(self, *dir, id)
			for _, m := range adeq.Missed {
				fmt.Println("ADEQUACY:", m)
			}
		}
	}
	// report violations
	replayDir := filepath.Join(*outDir, "out", "replay", id)
	os.MkdirAll(replayDir, 0o755)
	for _, o := range violations {
		path, confirmed := writeReplay(g, replayDir, id, o)
		suffix := ""
		if !confirmed {
			suffix = " no-failing-input-found"
		}
		fmt.Printf("VIOLATION property=%s replay=%s%s\n", id, path, suffix)
		fmt.Printf("  obligation %s at %s: %s [%s]\n", o.Name, o.Pos, o.Note, o.Status)
	}
	wall := time.Since(start).Seconds()
	var unc []string
	seenU := map[string]bool{}
	for f, us := range res.uncontracted {
		if !funcs[f] {
			continue
		}
		for _, u := range us {
			if !seenU[u] {
				seenU[u] = true
				unc = append(unc, u)
			}
		}
	}
	sort.Strings(unc)
	sort.Strings(res.inContext)
	for _, h := range res.inContext {
		fmt.Printf("IN-CONTEXT: %s has no contract and is only called directly: verified inside each caller, not on its own\n", h)
	}
	var abs []string
	for f, as := range res.abstracted {
		if funcs[f] {
			for _, a := range as {
				abs = append(abs, f+": "+a)
			}
		}
	}
	sort.Strings(abs)
	// mechanical scan: every assumption written into the contracts of the functions under contract
	var contractAssumes []string
	for _, f := range g.allFuncs {
		if !funcs[g.fnKey(f)] {
			continue
		}
		fc := g.ann.funcs[g.contractKey(f)]
		if fc == nil {
			continue
		}
		k := g.fnKey(f)
		for _, a := range fc.assumes {
			contractAssumes = append(contractAssumes, k+": assumes "+a.text)
		}

		for site, as := range fc.atAssume {
			for _, a := range as {
				contractAssumes = append(contractAssumes, k+": at "+site+" assume "+a.text)
			}
		}
	}
	// callee contracts that are assumed rather than proved matter to every caller: list them all
	for ck, fc := range g.ann.funcs {
		if fc.trusted {
			contractAssumes = append(contractAssumes, ck+": trusted (contract assumed, body not checked)")
		}
		for _, a := range fc.trusts {
			contractAssumes = append(contractAssumes, ck+": trusts (postcondition assumed by callers, not checked against the body) "+a.text)
		}
	}
	sort.Strings(contractAssumes)
	ev := Evidence{PropertyID: id, Tier: *tier, Seed: seed, Level: "proof", WallS: wall, Violations: len(violations)}
	ev.Coverage = map[string]interface{}{
		"obligations":              obligations,
		"discharged":               discharged,
		"checker_cmd":              fmt.Sprintf("/verif/bin/govc check -tier %s %s   (per obligation: incremental z3 5.1.0 batch, then race z3 4.8.12 | z3 5.1.0 | cvc5 1.0, %d ms)", *tier, id, timeout),
		"trusted_base":             globalTrusted,
		"functions_under_contract": sortedKeys(funcs),
		"by_kind":                  byKind,
		"by_solver":                bySolver,
		"solver_time_s":            float64(solverMs) / 1000,
		"samples":                  samples,
		"uncontracted_calls":       unc,
		"helpers_verified_in_context": res.inContext,
		"abstracted_ops":           abs,
		"known_findings":           known,
		"not_claimed":              notClaimedList,
		"bounded_checks":           pc.Bounded,
		"outside_this_technique":   pc.Outside,
		"canaries_refuted":         fmt.Sprintf("%d/%d", canaryRefuted, canaryTotal),
		"cover_reachable":          fmt.Sprintf("%d/%d", coverOK, coverTotal),
		"lemmas":                   fmt.Sprintf("%d/%d", lemmaOK, lemmaTotal),
		"explanation":              "every obligation is a verification condition generated from go/ssa of /repo's working tree for the listed functions; discharged == obligations means every one was answered unsat",
	}
	if len(renamed) > 0 {
		ev.Coverage["renamed_variables_followed"] = renamed
	}
	if cross != nil {
		ev.Coverage["thorough_cross_check"] = cross
	}
	if adeq != nil {
		ev.Coverage["thorough_adequacy"] = adeq
	}
	ev.Assumptions = append(append([]string{}, globalTrusted...), pc.Assumptions...)
	for _, a := range contractAssumes {
		ev.Assumptions = append(ev.Assumptions, "contract clause (unchecked): "+a)
	}
	if broken {
		// a broken check must not leave proof-level evidence behind
		ev.Coverage["discharged"] = 0
		ev.Coverage["explanation"] = "CHECK BROKEN: annotation/translation/vacuity errors, see output"
	}
	os.MkdirAll(filepath.Join(*outDir, "evidence"), 0o755)
	b, _ := json.MarshalIndent(ev, "", " ")
	os.WriteFile(filepath.Join(*outDir, "evidence", id+".json"), b, 0o644)
	fmt.Printf("%s tier=%s functions=%d obligations=%d discharged=%d violations=%d known=%d not_claimed=%d canaries=%d/%d cover=%d/%d wall=%.1fs\n",
		id, *tier, len(funcs), obligations, discharged, len(violations), len(known), len(notClaimedList), canaryRefuted, canaryTotal, coverOK, coverTotal, wall)
	if len(violations) > 0 {
		os.Exit(1)
	}
	if broken {
		os.Exit(2)
	}
}

func runLemma(path string, timeoutMs int) (status, solver string, ms int64) {
	b, err := os.ReadFile(path)
	if err != nil {
		return "missing", "", 0
	}
	for _, sp := range solvers(timeoutMs) {
		sp.cmd = sp.cmd[:len(sp.cmd)]
		start := time.Now()
		out, _ := runSolver(sp, string(b), time.Duration(timeoutMs+3000)*time.Millisecond)
		ms = time.Since(start).Milliseconds()
		// a lemma file may contain several check-sat; all must be unsat
		all := true
		n := 0
		for _, l := range strings.Split(out, "\n") {
			l = strings.TrimSpace(l)
			if l == "sat" || l == "unknown" || strings.HasPrefix(l, "(error") || l == "timeout" {
				all = false
			}
			if l == "unsat" {
				n++
			}
		}
		if all && n > 0 {
			return "unsat", sp.name, ms
		}
	}
	return "unknown", "", ms
}

func safeFile(s string) string {
	r := strings.NewReplacer("/", "_", "*", "", "(", "", ")", "", ":", "_", " ", "_", "$", "_", "#", "_", "<", "_", ">", "_", "[", "_", "]", "_", "&", "_", "|", "_")
	s = r.Replace(s)
	if len(s) > 180 {
		s = s[:180]
	}
	return s
}

// writeReplay writes the replay file for a failed obligation and tries to
// confirm it on the real code when a replay template exists.
func writeReplay(g *Gen, dir, id string, o *Obligation) (path string, confirmed bool) {
	path = filepath.Join(dir, safeFile(o.Name)+".json")
	rec := map[string]interface{}{
		"property":   id,
		"obligation": o.Name,
		"kind":       o.Kind,
		"function":   o.Func,
		"position":   o.Pos,
		"what":       o.Note,
		"status":     o.Status,
		"solver":     o.Solver,
		"solver_output": o.Model,
	}
	if o.Status == "sat" {
		rec["counterexample"] = o.Values
	}
	confirmed = false
	if o.Candidate {
		rec["counterexample"] = o.Values
		rec["counterexample_kind"] = "candidate: obtained with the quantified assumptions dropped; believed only if the replay reproduces it"
	}
	if rp := findReplay(o); rp != nil && (o.Status == "sat" || o.Candidate || rp.fixed) {
		ok, out := rp.run(g, o, o.Values)
		rec["replay_template"] = rp.name
		rec["replay_output"] = out
		rec["replay_confirmed"] = ok
		confirmed = ok
	}
	b, _ := json.MarshalIndent(rec, "", " ")
	os.WriteFile(path, b, 0o644)
	if o.Query != "" {
		os.WriteFile(strings.TrimSuffix(path, ".json")+".smt2", []byte(o.Query), 0o644)
	}
	return path, confirmed
}

// extractModel pulls simple Int/Bool constants out of a z3 model.
func extractModel(m string) map[string]string {
	out := map[string]string{}
	re := regexp.MustCompile(`\(define-fun \|?([^|\s]+)\|? \(\) (Int|Bool)\s+([^\n]+)\)`)
	for _, mm := range re.FindAllStringSubmatch(m, -1) {
		v := strings.TrimSpace(mm[3])
		v = strings.TrimSuffix(v, ")")
		if strings.HasPrefix(v, "(- ") {
			v = "-" + strings.TrimSuffix(v[3:], ")")
		}
		out[mm[1]] = v
	}
	// interface-typed constants: (mk_iface tag int str bool real slice)
	ri := regexp.MustCompile(`\(define-fun \|?([^|\s]+)\|? \(\) Iface\s+\(mk_iface (\(- \d+\)|-?\d+) (\(- \d+\)|-?\d+) \S+ (true|false)`)
	for _, mm := range ri.FindAllStringSubmatch(m, -1) {
		num := func(v string) string {
			if strings.HasPrefix(v, "(- ") {
				return "-" + strings.TrimSuffix(v[3:], ")")
			}
			return v
		}
		out[mm[1]+".tag"] = num(mm[2])
		out[mm[1]+".int"] = num(mm[3])
		out[mm[1]+".bool"] = mm[4]
	}
	return out
}
