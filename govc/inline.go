package main

// Verification in context of functions the contracts do not know.
//
// Verification is modular: a call is checked against the callee's contract.  A function that did
// not exist when the contracts were written (it is absent from /verif/spec/funcs.json) and has no
// contract block -- typically a helper a maintainer extracted from a function under contract --
// would otherwise be (a) havocked at its call sites, which loses every fact the caller's proof
// needs, and (b) swept on its own without `holds` clauses, so that every guarded access in it
// looks unguarded.  Both are false alarms on behaviour-preserving refactors.
//
// Such a function is instead translated *in place* at each static call: its SSA blocks are
// translated inside the caller's activation (same heap, same ghost state, same lock set, same
// ownership state), parameters bound to the argument terms, its returns joined into the state
// after the call.  No obligation is lost: every instruction of the helper still produces its
// obligations, once per calling context, under the caller's name.  Sites and loops of the
// helper are numbered as if its body stood at the call (flattened source order), so a contract
// clause of the caller attached to `call:AfterFunc#1` or `loop 2` still finds its site after
// the code moved into a helper.  A helper that is only ever called this way is not verified on
// its own (there is nothing left to check that the callers' copies do not check); one that is
// also spawned, deferred through a function value, stored or exported keeps its standalone run.
//
// Restrictions (otherwise the call stays an ordinary uncontracted call): the helper is a
// top-level function or method of the module with a body, no recover block, not recursive, and
// it is called at most once within one flattened caller.

import (
	"encoding/json"
	"go/token"
	"go/types"
	"os"
	"sort"

	"golang.org/x/tools/go/ssa"
)

const funcsPath = "/verif/spec/funcs.json"

type inlFrame struct {
	fn      *ssa.Function
	call    ssa.Instruction
	callBlk *ssa.BasicBlock
	callIdx int
	rets    []inlRet
}

type inlRet struct {
	st   *State
	vals []string
	in   *ssa.Return
}

// loadSnapFuncs reads the list of functions the contracts were written against.
func (g *Gen) loadSnapFuncs() {
	g.snapFuncs = nil
	b, err := os.ReadFile(funcsPath)
	if err != nil {
		return
	}
	var fs []string
	if json.Unmarshal(b, &fs) != nil {
		return
	}
	g.snapFuncs = map[string]bool{}
	for _, f := range fs {
		g.snapFuncs[f] = true
	}
}

func (g *Gen) snapshotFuncs() []string {
	var out []string
	for _, fn := range g.allFuncs {
		if g.inScope(fn) {
			out = append(out, g.fnKey(fn))
		}
	}
	sort.Strings(out)
	return out
}

// inlinable: a function the contracts do not know and say nothing about.
func (g *Gen) inlinable(fn *ssa.Function) bool {
	if g.snapFuncs == nil || fn == nil || len(fn.Blocks) == 0 || fn.Parent() != nil || fn.Recover != nil {
		return false
	}
	if !g.fnInModule(fn) || !g.inScope(fn) || fn.Synthetic != "" {
		return false
	}
	if g.snapFuncs[g.fnKey(fn)] {
		return false
	}
	if g.contractOf(fn) != nil {
		return false
	}
	return true
}

// inlineOnly: every use of fn is a static call (or defer) that is translated in place.
func (g *Gen) inlineOnly(fn *ssa.Function) bool {
	if !g.inlinable(fn) {
		return false
	}
	if g.inlOnly == nil {
		g.computeInlineOnly()
	}
	return g.inlOnly[fn]
}

func (g *Gen) computeInlineOnly() {
	g.inlOnly = map[*ssa.Function]bool{}
	cand := map[*ssa.Function]bool{}
	for _, fn := range g.allFuncs {
		if g.inlinable(fn) {
			cand[fn] = true
		}
	}
	if len(cand) == 0 {
		return
	}
	only := map[*ssa.Function]bool{}
	for fn := range cand {
		// exported functions and methods can be called from outside the module
		if !token.IsExported(fn.Name()) {
			only[fn] = true
		}
	}
	type ref struct {
		in   ssa.Instruction
		from *ssa.Function
		f    *ssa.Function
		call bool
	}
	var refs []ref
	for _, from := range g.allFuncs {
		for _, b := range from.Blocks {
			for _, in := range b.Instrs {
				var rands [16]*ssa.Value
				for _, op := range in.Operands(rands[:0]) {
					if op == nil || *op == nil {
						continue
					}
					f, ok := (*op).(*ssa.Function)
					if !ok || !cand[f] {
						continue
					}
					ci, isCall := in.(ssa.CallInstruction)
					_, isGo := in.(*ssa.Go)
					refs = append(refs, ref{in, from, f, isCall && !isGo && !ci.Common().IsInvoke() && ci.Common().Value == ssa.Value(f)})
				}
			}
		}
	}
	for changed := true; changed; {
		changed = false
		drop := func(f *ssa.Function) {
			if only[f] {
				delete(only, f)
				changed = true
			}
		}
		reached := map[*ssa.Function]bool{}
		var roots []*ssa.Function
		for _, r := range g.allFuncs {
			if g.inScope(r) && !only[r] {
				roots = append(roots, r)
				for _, f := range g.inlinePlanFor(r).fns {
					reached[f] = true
				}
			}
		}
		for f := range only {
			if !reached[f] {
				drop(f)
			}
		}
		for _, rf := range refs {
			if !only[rf.f] {
				continue
			}
			if !rf.call {
				drop(rf.f)
				continue
			}
			from := rf.from
			for from.Parent() != nil {
				// a call from a closure: closures are functions of their own
				break
			}
			if !only[from] {
				if !g.inScope(from) || g.inlinePlanFor(from).target[rf.in] != rf.f {
					drop(rf.f)
				}
				continue
			}
			for _, r := range roots {
				p := g.inlinePlanFor(r)
				if p.planned(from) && p.target[rf.in] != rf.f {
					drop(rf.f)
				}
			}
		}
	}
	g.inlOnly = only
}

// ---- the flattened layout of one caller ---------------------------------------------------

type vpos []token.Pos

func vposLess(a, b vpos) bool {
	for i := 0; i < len(a) && i < len(b); i++ {
		if a[i] != b[i] {
			// positions that are not valid (compiler-made) go last within their level
			if a[i].IsValid() != b[i].IsValid() {
				return a[i].IsValid()
			}
			return a[i] < b[i]
		}
	}
	return len(a) < len(b)
}

// inlNode: one in-place instance of a helper (the root node is the function under translation).
type inlNode struct {
	call    ssa.Instruction // the call this instance stands for (nil for the root)
	fn      *ssa.Function
	parent  *inlNode
	kids    map[ssa.Instruction]*inlNode
	vp      vpos // positions of the calls leading here
	sites   map[ssa.Instruction]string
	loopOrd map[*ssa.BasicBlock]int
}

type siteEnt struct {
	in    ssa.Instruction
	label string
	node  *inlNode
}

type inlPlan struct {
	root    *inlNode
	target  map[ssa.Instruction]*ssa.Function // call instruction -> helper translated in place
	refused map[*ssa.Function]bool            // helpers that stay ordinary calls in this caller
	fns     []*ssa.Function                   // helpers in the plan (each once)
	nodes   []*inlNode                        // all instances, root first
}

// multiInstanceOK: the helper may be translated in place more than once in one caller.  State the
// engine keys by instruction (close-permission loads, objects allocated for construct-time
// invariants) would be shared between the instances, so helpers with either are translated in
// place only when called once.
func (g *Gen) multiInstanceOK(fn *ssa.Function) bool {
	for _, b := range fn.Blocks {
		for _, in := range b.Instrs {
			switch x := in.(type) {
			case *ssa.Alloc:
				if x.Heap {
					if _, isSt := x.Type().(*types.Pointer).Elem().Underlying().(*types.Struct); isSt {
						return false
					}
				}
			case *ssa.MakeChan:
				return false
			case *ssa.UnOp:
				if fa, ok := x.X.(*ssa.FieldAddr); ok && x.Op == token.MUL {
					if pt, ok := fa.X.Type().Underlying().(*types.Pointer); ok {
						if sa := g.ann.structs[g.typeKey(pt.Elem())]; sa != nil && sa.closeTok != nil {
							return false
						}
					}
				}
			}
		}
	}
	return true
}

func (g *Gen) inlinePlanFor(caller *ssa.Function) *inlPlan {
	if g.plans == nil {
		g.plans = map[*ssa.Function]*inlPlan{}
	}
	if p, ok := g.plans[caller]; ok {
		return p
	}
	p := &inlPlan{target: map[ssa.Instruction]*ssa.Function{}, refused: map[*ssa.Function]bool{}}
	p.root = &inlNode{fn: caller, kids: map[ssa.Instruction]*inlNode{}}
	p.nodes = []*inlNode{p.root}
	g.plans[caller] = p
	if g.snapFuncs == nil {
		return p
	}
	// first pass: which helpers are reachable, how often, and which must stay calls
	count := map[*ssa.Function]int{}
	var scan func(fn *ssa.Function, stack []*ssa.Function)
	scan = func(fn *ssa.Function, stack []*ssa.Function) {
		for _, b := range fn.Blocks {
			for _, in := range b.Instrs {
				ci, ok := in.(ssa.CallInstruction)
				if !ok {
					continue
				}
				if _, isGo := in.(*ssa.Go); isGo {
					continue
				}
				f := g.staticCallee(ci.Common())
				if f == nil || !g.inlinable(f) || len(ci.Common().Args) != len(f.Params) {
					continue
				}
				rec := f == caller
				for _, s := range stack {
					if s == f {
						rec = true
					}
				}
				if rec || len(stack) >= 4 {
					p.refused[f] = true
					continue
				}
				count[f]++
				if count[f] <= 8 {
					scan(f, append(stack, f))
				}
			}
		}
	}
	scan(caller, nil)
	for f, n := range count {
		if n > 1 && (n > 8 || !g.multiInstanceOK(f)) {
			p.refused[f] = true
		}
	}
	// second pass: the instance tree
	seenFn := map[*ssa.Function]bool{}
	var build func(n *inlNode, depth int)
	build = func(n *inlNode, depth int) {
		for _, b := range n.fn.Blocks {
			for _, in := range b.Instrs {
				ci, ok := in.(ssa.CallInstruction)
				if !ok {
					continue
				}
				if _, isGo := in.(*ssa.Go); isGo {
					continue
				}
				f := g.staticCallee(ci.Common())
				if f == nil || !g.inlinable(f) || p.refused[f] || len(ci.Common().Args) != len(f.Params) || len(p.nodes) >= 24 || depth >= 4 {
					continue
				}
				k := &inlNode{call: in, fn: f, parent: n, kids: map[ssa.Instruction]*inlNode{}, vp: append(append(vpos{}, n.vp...), in.Pos())}
				n.kids[in] = k
				p.nodes = append(p.nodes, k)
				p.target[in] = f
				if !seenFn[f] {
					seenFn[f] = true
					p.fns = append(p.fns, f)
				}
				build(k, depth+1)
			}
		}
	}
	build(p.root, 0)
	sort.Slice(p.fns, func(i, j int) bool { return g.fnKey(p.fns[i]) < g.fnKey(p.fns[j]) })
	return p
}

func (p *inlPlan) planned(f *ssa.Function) bool {
	for _, t := range p.fns {
		if t == f {
			return true
		}
	}
	return false
}

// codeFns: the function being translated followed by the helpers translated inside it.
func (t *fnTrans) codeFns() []*ssa.Function {
	out := []*ssa.Function{t.fn}
	if t.plan != nil {
		out = append(out, t.plan.fns...)
	}
	return out
}

// allBlocks: the blocks of the function and of every helper translated in place.
func (t *fnTrans) allBlocks() []*ssa.BasicBlock {
	var out []*ssa.BasicBlock
	for _, f := range t.codeFns() {
		out = append(out, f.Blocks...)
	}
	return out
}

// planNodes: all in-place instances (root first); a single root when there is no plan.
func (t *fnTrans) planNodes() []*inlNode {
	if t.plan == nil {
		return []*inlNode{{fn: t.fn}}
	}
	return t.plan.nodes
}

// curVpos: flattened position of `pos` in the code currently being translated.
func (t *fnTrans) curVpos(pos token.Pos) vpos {
	if t.curNode == nil || len(t.curNode.vp) == 0 {
		return vpos{pos}
	}
	return append(append(vpos{}, t.curNode.vp...), pos)
}

// inLoop: the instruction `in` of instance n runs inside loop li of the code being translated
// (directly, or because a call leading to its instance stands inside the loop).
func inLoop(li *loopInfo, in ssa.Instruction, n *inlNode) bool {
	if li.blocks[in.Block()] {
		return true
	}
	for x := n; x != nil && x.call != nil; x = x.parent {
		if li.blocks[x.call.Block()] {
			return true
		}
	}
	return false
}

// instancesOf: the in-place instances of fn.
func (t *fnTrans) instancesOf(fn *ssa.Function) []*inlNode {
	var out []*inlNode
	for _, n := range t.planNodes() {
		if n.fn == fn && n.call != nil {
			out = append(out, n)
		}
	}
	return out
}

// dominates: b is executed before every execution of target, across in-place frames.
func (t *fnTrans) dominates(b, target *ssa.BasicBlock) bool {
	if b == nil || target == nil {
		return false
	}
	if b.Parent() == target.Parent() {
		return b == target || b.Dominates(target)
	}
	if t.plan == nil {
		return false
	}
	// b inside a helper that has returned: it ran completely before target iff (for its single
	// instance) its call dominates target and b dominates all the helper's returns
	ins := t.instancesOf(b.Parent())
	if len(ins) != 1 {
		return false
	}
	blk := b
	for n := ins[0]; n != nil && n.call != nil; n = n.parent {
		for _, rb := range n.fn.Blocks {
			if len(rb.Instrs) == 0 {
				continue
			}
			if _, isRet := rb.Instrs[len(rb.Instrs)-1].(*ssa.Return); isRet {
				if !(blk == rb || blk.Dominates(rb)) {
					return false
				}
			}
		}
		cb := n.call.Block()
		if cb.Parent() == target.Parent() {
			return cb == target || cb.Dominates(target)
		}
		if len(t.instancesOf(cb.Parent())) != 1 {
			return false
		}
		blk = cb
	}
	return false
}

// inlineCall translates callee's body in place of the call `in`.
func (t *fnTrans) inlineCall(node *inlNode, in ssa.Instruction, callee *ssa.Function, cc *ssa.CallCommon, res ssa.Value) {
	t.inlined[t.g.fnKey(callee)] = true
	if t.paramArg == nil {
		t.paramArg = map[*ssa.Parameter]ssa.Value{}
	}
	for i, p := range callee.Params {
		if i >= len(cc.Args) {
			break
		}
		a := cc.Args[i]
		t.vals[p] = []string{t.val(a)}
		t.copyMeta(p, a)
		t.paramArg[p] = a
	}
	idx := 0
	if t.curBlock != nil {
		for i, x := range t.curBlock.Instrs {
			if x == in {
				idx = i
			}
		}
	}
	fr := &inlFrame{fn: callee, call: in, callBlk: t.curBlock, callIdx: idx}
	savedLoops, savedOrder, savedOut, savedBlk := t.loops, t.order, t.out, t.curBlock
	savedNode, savedSites := t.curNode, t.sites
	t.curNode, t.sites = node, node.sites
	callerDefers := t.cur.defers
	t.cur.defers = nil
	t.frames = append(t.frames, fr)
	t.loops, t.order = t.computeCFG(callee)
	t.out = map[*ssa.BasicBlock]*State{}
	first := true
	for _, b := range t.order {
		t.curBlock = b
		if first {
			first = false
		} else {
			t.enterBlock(b)
		}
		if li := t.loops[b]; li != nil {
			t.enterLoop(b, li)
		}
		for _, bi := range b.Instrs {
			t.instr(bi)
		}
		t.out[b] = t.cur
		t.loopExitChecks(b)
		for _, s := range b.Succs {
			if isBackEdge(b, s) {
				t.backEdge(b, s)
			}
		}
	}
	t.frames = t.frames[:len(t.frames)-1]
	t.loops, t.order, t.out, t.curBlock = savedLoops, savedOrder, savedOut, savedBlk
	t.curNode, t.sites = savedNode, savedSites
	rets := fr.rets
	switch len(rets) {
	case 0:
		// the helper never returns (panic on every path / endless loop)
		t.cur = t.h.child(t.h.base("false"))
		t.freshResults(res, nameOf(res, "r"))
	case 1:
		t.cur = t.h.child(rets[0].st)
		t.bindInlineResult(res, rets[0].vals)
		if res != nil && len(rets[0].in.Results) == 1 {
			t.copyMeta(res, rets[0].in.Results[0])
		}
	default:
		var sts []*State
		var conds []string
		for _, r := range rets {
			sts = append(sts, r.st)
			conds = append(conds, r.st.reach)
		}
		rn := t.c.define(t.c.fresh("R@inl"), "Bool", or(conds...))
		t.cur = t.h.child(t.h.join(sts, conds, rn))
		n := len(rets[0].vals)
		merged := make([]string, n)
		for i := 0; i < n; i++ {
			body := rets[len(rets)-1].vals[i]
			same := true
			for k := len(rets) - 2; k >= 0; k-- {
				if rets[k].vals[i] != body {
					same = false
				}
			}
			if !same {
				for k := len(rets) - 2; k >= 0; k-- {
					body = ite(conds[k], rets[k].vals[i], body)
				}
				srt := t.sortOf(rets[0].in.Results[i].Type())
				body = t.c.define(t.c.fresh(nameOf(res, "r")), srt, body)
			}
			merged[i] = body
		}
		t.bindInlineResult(res, merged)
	}
	t.cur.defers = callerDefers
}

func (t *fnTrans) bindInlineResult(res ssa.Value, vals []string) {
	if res == nil || len(vals) == 0 {
		return
	}
	t.vals[res] = append([]string{}, vals...)
}

// inlineReturn: a return of a helper translated in place ends that path of the helper.
func (t *fnTrans) inlineReturn(in *ssa.Return) {
	fr := t.frames[len(t.frames)-1]
	var rs []string
	for _, r := range in.Results {
		rs = append(rs, t.val(r))
	}
	fr.rets = append(fr.rets, inlRet{st: t.cur, vals: rs, in: in})
}

// nameVisible: a source-level definition made in block blk is in scope at the current point:
// it dominates the current block, or it belongs to an enclosing frame and dominates the call.
func (t *fnTrans) nameVisible(blk *ssa.BasicBlock) bool {
	if blk.Parent() == t.curBlock.Parent() {
		return blk.Dominates(t.curBlock)
	}
	for i := len(t.frames) - 1; i >= 0; i-- {
		fr := t.frames[i]
		if fr.callBlk != nil && fr.callBlk.Parent() == blk.Parent() {
			return blk.Dominates(fr.callBlk)
		}
	}
	return false
}

// ---- fields the contracts do not know ---------------------------------------------------------
//
// A struct annotation classifies the fields that existed when it was written.  A field added
// later (absent from /verif/spec/fields.json) has no declared discipline; leaving it unchecked
// would let a new piece of shared state (a scratch buffer reused by two goroutines, a flag read
// without the lock) through the race sweep.  Such a field takes the discipline of its struct:
// guarded by the struct's own lock if it has one, else by the lock its other guarded fields
// use, else immutable after construction.  A new field that respects that discipline is quiet.

const fieldsPath = "/verif/spec/fields.json"

func (g *Gen) snapshotFields() map[string][]string {
	out := map[string][]string{}
	for _, p := range g.pkgs {
		if p.Types == nil {
			continue
		}
		sc := p.Types.Scope()
		for _, name := range sc.Names() {
			tn, ok := sc.Lookup(name).(*types.TypeName)
			if !ok {
				continue
			}
			st, ok := tn.Type().Underlying().(*types.Struct)
			if !ok {
				continue
			}
			var fs []string
			for i := 0; i < st.NumFields(); i++ {
				fs = append(fs, st.Field(i).Name())
			}
			out[g.typeKey(tn.Type())] = fs
		}
	}
	return out
}

func (g *Gen) loadSnapFields() {
	g.snapFields = nil
	b, err := os.ReadFile(fieldsPath)
	if err != nil {
		return
	}
	var m map[string][]string
	if json.Unmarshal(b, &m) != nil {
		return
	}
	g.snapFields = map[string]map[string]bool{}
	for k, fs := range m {
		g.snapFields[k] = map[string]bool{}
		for _, f := range fs {
			g.snapFields[k][f] = true
		}
	}
}

// defaultFieldAnn: the discipline a field added after the contracts were written inherits.
func (g *Gen) defaultFieldAnn(sa *StructAnn, fname string) *fieldAnn {
	if g.snapFields == nil {
		return nil
	}
	known, ok := g.snapFields[sa.key]
	if !ok || known[fname] {
		return nil
	}
	if g.newFieldAnn == nil {
		g.newFieldAnn = map[string]*fieldAnn{}
	}
	k := sa.key + "." + fname
	if fa, ok := g.newFieldAnn[k]; ok {
		return fa
	}
	fa := &fieldAnn{kind: "immutable", reason: "field added after the contracts were written: it takes the discipline of its struct"}
	// the struct's own lock, if it has exactly one; else the lock most of its guarded fields use
	use := map[string]int{}
	for _, f := range sa.fields {
		if f.kind == "guarded" {
			use[f.lock]++
		}
	}
	best, bn := "", 0
	for l, n := range use {
		if n > bn || (n == bn && l < best) {
			best, bn = l, n
		}
	}
	if len(sa.locks) == 1 {
		for l := range sa.locks {
			best = l
		}
	}
	if best != "" {
		fa.kind, fa.lock = "guarded", best
	}
	g.newFieldAnn[k] = fa
	return fa
}
