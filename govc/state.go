package main

import (
	"fmt"
	"sort"
)

// Persistent symbolic state: heap variables are looked up lazily through a
// chain of states so that havoc-all, joins and snapshots are O(1).

type stKind int

const (
	stBase   stKind = iota // every variable is a fresh constant
	stChild                // parent + overrides
	stJoin                 // ite-merge of parents under edge conditions
	stHavoc                // parent, but variables not kept are fresh
)

type State struct {
	id      int
	kind    stKind
	parent  *State
	parents []*State
	conds   []string
	over    map[string]string
	keep    func(hv string) bool // stHavoc: true => inherited from parent
	cache   map[string]string
	reach   string
	defers  []deferred
	frozen  bool
}

type HeapReg struct {
	c     *FnCtx
	sorts map[string]string // heapvar -> sort
	nst   int
}

func (h *HeapReg) newState(k stKind) *State {
	h.nst++
	return &State{id: h.nst, kind: k, over: map[string]string{}, cache: map[string]string{}}
}

func (h *HeapReg) base(reach string) *State {
	s := h.newState(stBase)
	s.reach = reach
	return s
}

func (h *HeapReg) child(p *State) *State {
	p.frozen = true
	s := h.newState(stChild)
	s.parent = p
	s.reach = p.reach
	s.defers = p.defers
	return s
}

func (h *HeapReg) havoc(p *State, keep func(string) bool) *State {
	p.frozen = true
	s := h.newState(stHavoc)
	s.parent = p
	s.keep = keep
	s.reach = p.reach
	s.defers = p.defers
	return s
}

func (h *HeapReg) join(ps []*State, conds []string, reach string) *State {
	for _, p := range ps {
		p.frozen = true
	}
	s := h.newState(stJoin)
	s.parents = ps
	s.conds = conds
	s.reach = reach
	if len(ps) > 0 {
		s.defers = ps[0].defers
	}
	return s
}

func (h *HeapReg) sortOfVar(hv string) string {
	s, ok := h.sorts[hv]
	if !ok {
		panic("unknown heap var " + hv)
	}
	return s
}

func (h *HeapReg) get(s *State, hv string) string {
	if v, ok := s.over[hv]; ok {
		return v
	}
	if v, ok := s.cache[hv]; ok {
		return v
	}
	var v string
	switch s.kind {
	case stBase:
		v = h.c.declare(fmt.Sprintf("%s@S%d", hv, s.id), h.sortOfVar(hv))
	case stChild:
		v = h.get(s.parent, hv)
	case stHavoc:
		if s.keep != nil && s.keep(hv) {
			v = h.get(s.parent, hv)
		} else {
			v = h.c.declare(fmt.Sprintf("%s@S%d", hv, s.id), h.sortOfVar(hv))
		}
	case stJoin:
		vs := make([]string, len(s.parents))
		same := true
		for i, p := range s.parents {
			vs[i] = h.get(p, hv)
			if vs[i] != vs[0] {
				same = false
			}
		}
		if same {
			v = vs[0]
		} else {
			body := vs[len(vs)-1]
			for i := len(vs) - 2; i >= 0; i-- {
				body = ite(s.conds[i], vs[i], body)
			}
			v = h.c.define(fmt.Sprintf("%s@S%d", hv, s.id), h.sortOfVar(hv), body)
		}
	}
	s.cache[hv] = v
	return v
}

func (h *HeapReg) set(s *State, hv, term string) {
	if s.frozen {
		panic("set on frozen state")
	}
	// name the new version to keep terms small
	if len(term) > 40 {
		term = h.c.define(h.c.fresh(hv), h.sortOfVar(hv), term)
	}
	s.over[hv] = term
}

func (h *HeapReg) reg(hv, sort string) string {
	if old, ok := h.sorts[hv]; ok {
		if old != sort {
			panic(fmt.Sprintf("heap var %s: sort %s vs %s", hv, old, sort))
		}
		return hv
	}
	h.sorts[hv] = sort
	return hv
}

func (h *HeapReg) allVars() []string {
	var out []string
	for k := range h.sorts {
		out = append(out, k)
	}
	sort.Strings(out)
	return out
}
