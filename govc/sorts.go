package main

import (
	"fmt"
	"go/types"
	"math/big"
	"strings"
)

// typeKey: stable, line-free name of a named type relative to the module.
func (g *Gen) typeKey(t types.Type) string {
	switch t := t.(type) {
	case *types.Alias:
		return g.typeKey(types.Unalias(t))
	case *types.Named:
		o := t.Obj()
		if o.Pkg() == nil {
			return o.Name()
		}
		return g.relPkg(o.Pkg().Path()) + "." + o.Name()
	case *types.Pointer:
		return "*" + g.typeKey(t.Elem())
	}
	s := types.TypeString(t, func(p *types.Package) string { return g.relPkg(p.Path()) })
	return s
}

func (g *Gen) relPkg(path string) string {
	if path == g.mod {
		return "mangos"
	}
	if strings.HasPrefix(path, g.mod+"/") {
		return path[len(g.mod)+1:]
	}
	return path
}

func (g *Gen) inModule(p *types.Package) bool {
	return p != nil && (p.Path() == g.mod || strings.HasPrefix(p.Path(), g.mod+"/"))
}

func (g *Gen) tagOf(t types.Type) int {
	k := g.typeKey(t)
	if n, ok := g.typeTags[k]; ok {
		return n
	}
	n := len(g.typeTags) + 1
	g.typeTags[k] = n
	g.tagNames[n] = k
	return n
}

func sanitize(s string) string {
	r := strings.NewReplacer("|", "_", "\\", "_", " ", "_", "(", "<", ")", ">")
	return r.Replace(s)
}

// sortOf maps a Go type to an SMT sort, declaring datatypes in c as needed.
func (g *Gen) sortOf(c *FnCtx, t types.Type) string {
	switch u := t.Underlying().(type) {
	case *types.Basic:
		switch {
		case u.Info()&types.IsBoolean != 0:
			return "Bool"
		case u.Info()&types.IsInteger != 0:
			return "Int"
		case u.Info()&types.IsFloat != 0:
			return "Real"
		case u.Info()&types.IsString != 0:
			return "Str"
		case u.Kind() == types.UnsafePointer:
			return "Int"
		case u.Kind() == types.UntypedNil:
			return "Int"
		}
		return "Int"
	case *types.Pointer, *types.Chan, *types.Map, *types.Signature:
		return "Int"
	case *types.Slice:
		return "Slice"
	case *types.Interface:
		return "Iface"
	case *types.Array:
		return "(Array Int " + g.sortOf(c, u.Elem()) + ")"
	case *types.Struct:
		if u.NumFields() == 0 {
			return "Unit"
		}
		name := "S:" + sanitize(g.typeKey(t))
		if !c.sorts[name] {
			c.sorts[name] = true
			var fs []string
			for i := 0; i < u.NumFields(); i++ {
				fs = append(fs, fmt.Sprintf("(%s %s)", q(name+"."+u.Field(i).Name()), g.sortOf(c, u.Field(i).Type())))
			}
			c.sortDecls = append(c.sortDecls, fmt.Sprintf("(declare-datatypes ((%s 0)) (((%s %s))))", q(name), q("mk:"+name), strings.Join(fs, " ")))
		}
		return q(name)
	case *types.Tuple:
		return "TUPLE"
	}
	return "Int"
}

func (g *Gen) zero(c *FnCtx, t types.Type) string {
	switch u := t.Underlying().(type) {
	case *types.Basic:
		switch {
		case u.Info()&types.IsBoolean != 0:
			return "false"
		case u.Info()&types.IsFloat != 0:
			return "0.0"
		case u.Info()&types.IsString != 0:
			return "str_empty"
		}
		return "0"
	case *types.Slice:
		return "nil_slice"
	case *types.Interface:
		return "nil_iface"
	case *types.Array:
		return "((as const " + g.sortOf(c, t) + ") " + g.zero(c, u.Elem()) + ")"
	case *types.Struct:
		if u.NumFields() == 0 {
			return "unit"
		}
		s := g.sortOf(c, t)
		name := strings.Trim(s, "|")
		var fs []string
		for i := 0; i < u.NumFields(); i++ {
			fs = append(fs, g.zero(c, u.Field(i).Type()))
		}
		return "(" + q("mk:"+name) + " " + strings.Join(fs, " ") + ")"
	}
	return "0"
}

// intRange returns (lo, hi, ok) for bounded integer types we constrain.
func intRange(t types.Type) (string, string, bool) {
	b, ok := t.Underlying().(*types.Basic)
	if !ok || b.Info()&types.IsInteger == 0 {
		return "", "", false
	}
	switch b.Kind() {
	case types.Uint8:
		return "0", "255", true
	case types.Uint16:
		return "0", "65535", true
	case types.Uint32:
		return "0", "4294967295", true
	case types.Uint64, types.Uint, types.Uintptr:
		return "0", "18446744073709551615", true
	case types.Int8:
		return "(- 128)", "127", true
	case types.Int16:
		return "(- 32768)", "32767", true
	case types.Int32:
		return "(- 2147483648)", "2147483647", true
	case types.Int64, types.Int:
		return "(- 9223372036854775808)", "9223372036854775807", true
	}
	return "", "", false
}

func intBits(t types.Type) (bits int, unsigned bool, ok bool) {
	b, isb := t.Underlying().(*types.Basic)
	if !isb || b.Info()&types.IsInteger == 0 {
		return 0, false, false
	}
	switch b.Kind() {
	case types.Uint8:
		return 8, true, true
	case types.Uint16:
		return 16, true, true
	case types.Uint32:
		return 32, true, true
	case types.Uint64, types.Uint, types.Uintptr:
		return 64, true, true
	case types.Int8:
		return 8, false, true
	case types.Int16:
		return 16, false, true
	case types.Int32:
		return 32, false, true
	case types.Int64, types.Int, types.UntypedInt, types.UntypedRune:
		return 64, false, true
	}
	return 0, false, false
}

func pow2(n int) string {
	return new(big.Int).Lsh(big.NewInt(1), uint(n)).String()
}
