package main

import (
	"go/types"

	"golang.org/x/tools/go/ssa"
)

// Ownership discipline for *Message (C17). Filled in by own2.go.

func (t *fnTrans) ownStoreHook(in *ssa.Store, l *loc)                                      {}
func (t *fnTrans) ownLoadHook(in *ssa.UnOp, l *loc)                                        {}
func (t *fnTrans) ownCallHook(in ssa.Instruction, callee *ssa.Function, cc *ssa.CallCommon, res ssa.Value) {}
func (t *fnTrans) ownInvokeHook(in ssa.Instruction, cc *ssa.CallCommon, res ssa.Value)     {}
func (t *fnTrans) ownSendHook(in ssa.Instruction, v ssa.Value, x string, cond string)      {}
func (t *fnTrans) ownRecvHook(in ssa.Instruction, v string, elem types.Type)               {}
func (t *fnTrans) ownRecvHookIf(in ssa.Instruction, cond, v string, elem types.Type)       {}
func (t *fnTrans) ownReturnHook(in *ssa.Return, rs []string)                               {}
func (t *fnTrans) ownLoopHook(li *loopInfo)                                                {}
func (t *fnTrans) ownBackEdgeHook(li *loopInfo)                                            {}
func (t *fnTrans) ownSpawnHook(in ssa.Instruction, cc *ssa.CallCommon)                     {}
