package main

// Affine ownership discipline for *mangos.Message (property C17, DESIGN 8 C17).
//
// ghost own : Ref -> Int   = number of references to the message that this
//                            activation holds and may consume.
// Consuming operations (Free, channel send, go f(m), handing to a `takes`
// parameter, successful Send*, storing into a field, MakeUnique, returning it)
// need own >= 1 and decrement it; producing operations (NewMessage, Dup,
// channel receive, Recv*, Clone) increment it. Reading or writing the fields of
// a message needs own >= 1 unless the value was borrowed: a `borrows`
// parameter, or a value loaded from a field / map / slice of a structure (the
// structure holds that reference; this is the one place where double release
// through two loads of the same field is not seen — listed as an assumption).
// Dropping a message without Free is allowed (garbage collection).

import (
	"fmt"
	"go/token"
	"go/types"
	"strings"

	"golang.org/x/tools/go/ssa"
)

const ownHV = "ghost:own"
const sharedHV = "ghost:shared"

func (g *Gen) isMsgPtr(t types.Type) bool {
	p, ok := t.Underlying().(*types.Pointer)
	if !ok {
		return false
	}
	n, ok := types.Unalias(p.Elem()).(*types.Named)
	return ok && n.Obj().Name() == "Message" && n.Obj().Pkg() != nil && n.Obj().Pkg().Path() == g.mod
}

func (t *fnTrans) ownGet(x string) string {
	t.h.reg(ownHV, "(Array Int Int)")
	return sel(t.h.get(t.cur, ownHV), x)
}

func (t *fnTrans) ownAdd(x string, d int, cond string) {
	t.h.reg(ownHV, "(Array Int Int)")
	cur := t.h.get(t.cur, ownHV)
	nv := store(cur, x, fmt.Sprintf("(+ %s %d)", sel(cur, x), d))
	if d < 0 {
		nv = store(cur, x, fmt.Sprintf("(- %s %d)", sel(cur, x), -d))
	}
	t.h.set(t.cur, ownHV, ite(and(cond, "(not (= "+x+" 0))"), nv, cur))
}

// paramMode: how a *Message parameter of fn is passed: "takes", "cond" (taken iff the
// error result is nil), "borrows".
func (g *Gen) paramMode(fn *ssa.Function, name string, idx int) string {
	name = g.contractName(g.fnKey(fn), name)
	if fc := g.contractOf(fn); fc != nil {
		if fc.takes[name] {
			return "takes"
		}
		if fc.borrows[name] {
			return "borrows"
		}
		if fc.condTakes[name] {
			return "cond"
		}
	}
	return g.defaultMode(fn.Name(), fn.Signature, g.spawned[fn])
}

func (g *Gen) defaultMode(name string, sig *types.Signature, spawned bool) string {
	if (name == "SendMsg" || name == "Send") && sig.Results().Len() == 1 && sig.Results().At(0).Type().String() == "error" {
		return "cond"
	}
	if spawned && sig.Results().Len() == 0 {
		return "takes"
	}
	return "borrows"
}

func (g *Gen) returnsOwned(name string, sig *types.Signature) bool {
	if sig.Results().Len() == 0 || !g.isMsgPtr(sig.Results().At(0).Type()) {
		return false
	}
	switch name {
	case "RecvMsg", "Recv", "NewMessage", "Dup", "MakeUnique", "newMsg":
		return true
	}
	return false
}

// computeSpawned: functions started with `go f(...)` somewhere in the module.
func (g *Gen) computeSpawned() {
	g.spawned = map[*ssa.Function]bool{}
	for _, f := range g.allFuncs {
		for _, b := range f.Blocks {
			for _, in := range b.Instrs {
				if gs, ok := in.(*ssa.Go); ok {
					if callee := g.staticCallee(gs.Common()); callee != nil {
						g.spawned[callee] = true
					}
				}
			}
		}
	}
}

// borrowedVal: static judgement that v may be dereferenced without holding a count.
func (t *fnTrans) borrowedVal(v ssa.Value) bool {
	switch x := v.(type) {
	case *ssa.Parameter:
		for i, p := range t.fn.Params {
			if p == x {
				return t.g.paramMode(t.fn, p.Name(), i) == "borrows"
			}
		}
	case *ssa.UnOp:
		if x.Op == token.MUL {
			switch x.X.(type) {
			case *ssa.FieldAddr, *ssa.IndexAddr, *ssa.Global:
				return true
			case *ssa.FreeVar, *ssa.Alloc:
				return t.capturedBorrow[x.X]
			}
		}
	case *ssa.Lookup:
		return true
	case *ssa.Extract:
		if _, ok := x.Tuple.(*ssa.Lookup); ok {
			return true
		}
		if _, ok := x.Tuple.(*ssa.Next); ok {
			return true
		}
	case *ssa.Field:
		return t.borrowedStruct(x.X)
	case *ssa.Phi:
		all := true
		for _, e := range x.Edges {
			if c, ok := e.(*ssa.Const); ok && c.IsNil() {
				continue
			}
			if e == v {
				continue
			}
			if _, isPhi := e.(*ssa.Phi); isPhi || !t.borrowedVal(e) {
				all = false
			}
		}
		return all
	case *ssa.FreeVar:
		return false
	}
	return false
}

func (t *fnTrans) borrowedStruct(v ssa.Value) bool {
	if u, ok := v.(*ssa.UnOp); ok && u.Op == token.MUL {
		switch u.X.(type) {
		case *ssa.FieldAddr, *ssa.IndexAddr:
			return true
		}
	}
	return false
}

func (t *fnTrans) ownRequire(kind, disc string, v ssa.Value, x string, pos token.Pos, what string) {
	if t.borrowedVal(v) {
		return
	}
	t.oblige(kind, disc+":"+t.describe(v), pos, or("(= "+x+" 0)", "(>= "+t.ownGet(x)+" 1)"), what)
}

// ---- hooks ----------------------------------------------------------------------------

func (t *fnTrans) ownEntry() {
	t.h.reg(ownHV, "(Array Int Int)")
	init := "((as const (Array Int Int)) 0)"
	for i, p := range t.fn.Params {
		if !t.g.isMsgPtr(p.Type()) {
			continue
		}
		switch t.g.paramMode(t.fn, p.Name(), i) {
		case "takes", "cond":
			init = store(init, t.val(p), "1")
			if t.g.paramMode(t.fn, p.Name(), i) == "cond" {
				// API precondition (C17 "Send takes ownership"): a message given to Send* is
				// exclusively the caller's -- unless the function's contract says
				// `accepts_shared m` (raw BUS forwarding: a bridge may Clone and re-send), in
				// which case every Header/Body edit needs a MakeUnique first (own.write_shared).
				if fc := t.g.contractOf(t.fn); fc == nil || !fc.acceptsShared[t.g.contractName(t.key, p.Name())] {
					t.assume(not(t.sharedGet(t.val(p))))
				}
			}
		}
	}
	t.assume(eq(t.h.get(t.cur, ownHV), init))
}

func (t *fnTrans) ownStoreHook(in *ssa.Store, l *loc) {
	if !t.g.isMsgPtr(in.Val.Type()) {
		return
	}
	if t.ownExempt() {
		return
	}
	// overwriting a message field: this activation takes over the reference the structure held
	if l.kind == locField && !(l.baseVal != nil && t.local[l.baseVal]) {
		prev := t.load(l)
		pn := t.c.define(t.c.fresh("prev"), "Int", prev)
		t.ownAdd(pn, 1, not(eq(pn, t.val(in.Val))))
	}
	if c, ok := in.Val.(*ssa.Const); ok && c.IsNil() {
		return
	}
	if l.kind == locCell && l.baseVal != nil {
		if _, isAlloc := l.baseVal.(*ssa.Alloc); isAlloc {
			if _, isSt := t.isStruct(l.typ); !isSt {
				return // a local variable cell: not a transfer
			}
		}
		if _, isFV := l.baseVal.(*ssa.FreeVar); isFV {
			return
		}
	}
	if l.kind != locField && l.kind != locElem && l.kind != locCell {
		return
	}
	x := t.val(in.Val)
	if l.baseVal != nil && t.local[l.baseVal] && l.kind != locElem {
		return // building a local struct value: the transfer happens when it is sent / stored
	}
	// the structure takes over one reference
	if !t.borrowedVal(in.Val) {
		t.oblige("own.store", "store:"+l.fname+":"+t.describe(in.Val), in.Pos(), or("(= "+x+" 0)", "(>= "+t.ownGet(x)+" 1)"), "message stored into a structure without holding a reference to it")
		t.ownAdd(x, -1, "true")
	}
}

func (t *fnTrans) ownLoadHook(in *ssa.UnOp, l *loc) {}

// field access of a message
func (t *fnTrans) ownFieldUse(fa *ssa.FieldAddr, base string) {
	if t.ownExempt() {
		return
	}
	if !t.g.isMsgPtr(fa.X.Type()) {
		return
	}
	if t.local[fa.X] {
		return
	}
	st := fa.X.Type().Underlying().(*types.Pointer).Elem().Underlying().(*types.Struct)
	fname := st.Field(fa.Field).Name()
	if fname == "refcnt" {
		return
	}
	t.ownRequire("own.use", "use:"+fname, fa.X, base, fa.Pos(), "message used without owning it (after release or hand-off)")
}

func (t *fnTrans) msgMethod(callee *ssa.Function) string {
	if callee == nil || callee.Signature.Recv() == nil {
		return ""
	}
	if !t.g.isMsgPtr(callee.Signature.Recv().Type()) {
		return ""
	}
	return callee.Name()
}

// ownBuiltinCall handles the methods of Message and NewMessage; returns true if handled.
func (t *fnTrans) ownMessageOp(in ssa.Instruction, callee *ssa.Function, cc *ssa.CallCommon, res ssa.Value) {
	if t.ownExempt() {
		return
	}
	switch t.msgMethod(callee) {
	case "Free":
		v := cc.Args[0]
		x := t.val(v)
		if !t.borrowedVal(v) {
			t.oblige("own.release", "free:"+t.describe(v), in.Pos(), or("(= "+x+" 0)", "(>= "+t.ownGet(x)+" 1)"), "Free of a message this code does not own (double release or release after hand-off)")
			t.ownAdd(x, -1, "true")
		}
		t.event("freed", x, "")
	case "Clone":
		v := cc.Args[0]
		x := t.val(v)
		t.ownRequire("own.use", "clone", v, x, in.Pos(), "Clone of a message that is not owned")
		t.ownAdd(x, 1, "true")
		t.sharedSet(x, "true", "true")
	case "MakeUnique":
		v := cc.Args[0]
		x := t.val(v)
		if !t.borrowedVal(v) {
			t.oblige("own.release", "makeunique:"+t.describe(v), in.Pos(), or("(= "+x+" 0)", "(>= "+t.ownGet(x)+" 1)"), "MakeUnique consumes the receiver; it is not owned here")
			t.ownAdd(x, -1, "true")
		}
		if res != nil {
			t.ownAdd(t.val(res), 1, "true")
			t.sharedSet(t.val(res), "false", "true")
		}
	case "Dup":
		if res != nil {
			t.ownFresh(t.val(res), "true")
			t.ownAdd(t.val(res), 1, "true")
			t.sharedSet(t.val(res), "false", "true")
		}
	}
	if callee != nil && callee.Name() == "NewMessage" && callee.Signature.Recv() == nil && res != nil && t.g.isMsgPtr(res.Type()) {
		t.ownFresh(t.val(res), "true")
		t.ownAdd(t.val(res), 1, "true")
		t.sharedSet(t.val(res), "false", "true")
	}
}

func (t *fnTrans) ownArgs(in ssa.Instruction, name string, sig *types.Signature, modeOf func(i int, pname string) string, args []ssa.Value, res ssa.Value, argOffset int) {
	if t.ownExempt() {
		return
	}
	for i, a := range args {
		if !t.g.isMsgPtr(a.Type()) {
			continue
		}
		pi := i - argOffset
		if pi < 0 || pi >= sig.Params().Len() {
			continue
		}
		mode := modeOf(pi, sig.Params().At(pi).Name())
		x := t.val(a)
		switch mode {
		case "takes":
			{
				t.oblige("own.handoff", "arg:"+name+":"+t.describe(a), in.Pos(), or("(= "+x+" 0)", "(>= "+t.ownGet(x)+" 1)"), "message handed to "+name+" (which takes ownership) without owning it")
				t.ownAdd(x, -1, "true")
			}
		case "cond":
			{
				t.oblige("own.handoff", "arg:"+name+":"+t.describe(a), in.Pos(), or("(= "+x+" 0)", "(>= "+t.ownGet(x)+" 1)"), "message passed to "+name+" without owning it")
				if res != nil {
					r := t.vals[res]
					if len(r) >= 1 {
						t.ownAdd(x, -1, "(= (itag "+r[len(r)-1]+") 0)")
					}
				} else {
					// result ignored: ownership unknown afterwards; assume taken
					t.ownAdd(x, -1, "true")
				}
			}
		}
	}
	if res != nil && t.g.returnsOwned(name, sig) {
		r := t.vals[res]
		if len(r) >= 1 {
			t.ownFresh(r[0], "true")
			t.ownAdd(r[0], 1, "true")
			if name == "RecvMsg" || name == "Recv" {
				t.sharedSet(r[0], "false", "true") // guaranteed by own.unique of every implementation
			}
		}
	}
}

func (t *fnTrans) ownCallHook(in ssa.Instruction, callee *ssa.Function, cc *ssa.CallCommon, res ssa.Value) {
	if callee == nil {
		return
	}
	if t.msgMethod(callee) != "" || (callee.Name() == "NewMessage" && callee.Signature.Recv() == nil) {
		t.ownMessageOp(in, callee, cc, res)
		return
	}
	off := 0
	if callee.Signature.Recv() != nil {
		off = 1
	}
	t.ownArgs(in, callee.Name(), callee.Signature, func(i int, pname string) string {
		return t.g.paramMode(callee, pname, i+off)
	}, cc.Args, res, off)
}

func (t *fnTrans) ownInvokeHook(in ssa.Instruction, cc *ssa.CallCommon, res ssa.Value) {
	sig := cc.Method.Type().(*types.Signature)
	fc := t.g.ifaceContract(cc)
	t.ownArgs(in, cc.Method.Name(), sig, func(i int, pname string) string {
		if fc != nil {
			if fc.takes[pname] {
				return "takes"
			}
			if fc.borrows[pname] {
				return "borrows"
			}
		}
		return t.g.defaultMode(cc.Method.Name(), sig, false)
	}, cc.Args, res, 0)
}

func (t *fnTrans) ownSendHook(in ssa.Instruction, v ssa.Value, x string, cond string) {
	if t.ownExempt() {
		return
	}
	if !t.g.isMsgPtr(v.Type()) {
		// a struct value carrying messages (e.g. recvQEntry{m, p})
		if st, ok := v.Type().Underlying().(*types.Struct); ok {
			s := strings.Trim(t.sortOf(v.Type()), "|")
			for i := 0; i < st.NumFields(); i++ {
				if t.g.isMsgPtr(st.Field(i).Type()) {
					fx := "(" + q(s+"."+st.Field(i).Name()) + " " + x + ")"
					save := t.cur.reach
					t.cur.reach = and(save, cond)
					t.oblige("own.handoff", "send:"+t.describe(v)+"."+st.Field(i).Name(), in.Pos(), or("(= "+fx+" 0)", "(>= "+t.ownGet(fx)+" 1)"), "message sent on a channel (inside a struct) without owning it")
					t.cur.reach = save
					t.ownAdd(fx, -1, cond)
				}
			}
		}
		return
	}
	{
		save := t.cur.reach
		t.cur.reach = and(save, cond)
		t.oblige("own.handoff", "send:"+t.describe(v), in.Pos(), or("(= "+x+" 0)", "(>= "+t.ownGet(x)+" 1)"), "message sent on a channel without owning it (double hand-off or use after release)")
		t.cur.reach = save
		t.ownAdd(x, -1, cond)
	}
}

func (t *fnTrans) ownRecvHook(in ssa.Instruction, v string, elem types.Type) {
	t.ownRecvHookIf(in, "true", v, elem)
}

func (t *fnTrans) ownRecvHookIf(in ssa.Instruction, cond, v string, elem types.Type) {
	if t.ownExempt() {
		return
	}
	if t.g.isMsgPtr(elem) {
		t.ownFresh(v, cond)
		t.ownAdd(v, 1, cond)
		return
	}
	if st, ok := elem.Underlying().(*types.Struct); ok {
		s := strings.Trim(t.sortOf(elem), "|")
		for i := 0; i < st.NumFields(); i++ {
			if t.g.isMsgPtr(st.Field(i).Type()) {
				t.ownAdd("("+q(s+"."+st.Field(i).Name())+" "+v+")", 1, cond)
			}
		}
	}
}

func (t *fnTrans) ownReturnHook(in *ssa.Return, rs []string) {
	if t.ownExempt() {
		return
	}
	sig := t.fn.Signature
	// a returned message must be owned by the function (it passes to the caller)
	if len(in.Results) > 0 && t.g.isMsgPtr(in.Results[0].Type()) && t.g.returnsOwned(t.fn.Name(), sig) {
		v := in.Results[0]
		if !t.borrowedVal(v) {
			t.oblige("own.exit", "result:"+t.describe(v), in.Pos(), or("(= "+rs[0]+" 0)", "(>= "+t.ownGet(rs[0])+" 1)"), "returned message is not owned by the callee (released or handed off before return)")
		}
		if (t.fn.Name() == "RecvMsg" || t.fn.Name() == "Recv") && !t.borrowedVal(v) {
			t.oblige("own.unique", "result:"+t.describe(v), in.Pos(), or("(= "+rs[0]+" 0)", not(t.sharedGet(rs[0]))), "a message returned by Recv must not be shared with anyone (MakeUnique before handing it up)")
		}
	}
	// Send-like: on error the message is still the caller's
	for i, p := range t.fn.Params {
		if !t.g.isMsgPtr(p.Type()) {
			continue
		}
		if t.g.paramMode(t.fn, p.Name(), i) != "cond" || len(rs) == 0 {
			continue
		}
		errT := rs[len(rs)-1]
		x := t.val(p)
		t.oblige("own.exit", "error-keeps:"+p.Name(), in.Pos(), implies("(not (= (itag "+errT+") 0))", "(>= "+t.ownGet(x)+" 1)"), "on failure the message must still belong to the caller (it was released or handed off on an error path)")
		// body intact on failure
		bodyHV, _, _ := t.fieldHVByName(p.Type(), "Body")
		if bodyHV != "" {
			t.oblige("own.exit", "error-body:"+p.Name(), in.Pos(), implies("(not (= (itag "+errT+") 0))", eq(sel(t.h.get(t.cur, bodyHV), x), sel(t.h.get(t.entry, bodyHV), x))), "on failure the message body must be left as it was")
		}
	}
}

func (t *fnTrans) fieldHVByName(ptr types.Type, name string) (string, types.Type, bool) {
	T := deref(ptr)
	st, ok := T.Underlying().(*types.Struct)
	if !ok {
		return "", nil, false
	}
	for i := 0; i < st.NumFields(); i++ {
		if st.Field(i).Name() == name {
			hv, ft, _ := t.fieldHV(T, i)
			return hv, ft, true
		}
	}
	return "", nil, false
}

func (t *fnTrans) ownLoopHook(li *loopInfo) {}

// a loop iteration must not consume references that existed before the loop
func (t *fnTrans) ownBackEdgeHook(li *loopInfo) {
	if _, used := t.h.sorts[ownHV]; !used {
		return
	}
	head := t.siteState[fmt.Sprintf("loop%d:head", li.ord)]
	if head == nil {
		return
	}
	oh := t.h.get(head, ownHV)
	ob := t.h.get(t.cur, ownHV)
	if oh == ob {
		return
	}
	r := q(t.c.fresh("r"))
	t.oblige("own.balance", fmt.Sprintf("loop%d", li.ord), token.NoPos, fmt.Sprintf("(forall ((%s Int)) (>= (select %s %s) (select %s %s)))", r, ob, r, oh, r), "a loop iteration consumes a message reference it did not acquire in that iteration")
}

func (t *fnTrans) ownSpawnHook(in ssa.Instruction, cc *ssa.CallCommon) {
	if t.ownExempt() {
		return
	}
	if cc == nil {
		return
	}
	callee := t.g.staticCallee(cc)
	for i, a := range cc.Args {
		if !t.g.isMsgPtr(a.Type()) {
			continue
		}
		x := t.val(a)
		_ = i
		if true {
			name := "fn"
			if callee != nil {
				name = callee.Name()
			}
			t.oblige("own.handoff", "go:"+name+":"+t.describe(a), in.Pos(), or("(= "+x+" 0)", "(>= "+t.ownGet(x)+" 1)"), "message handed to a new goroutine without owning it")
			t.ownAdd(x, -1, "true")
		} else {
			name := "fn"
			if callee != nil {
				name = callee.Name()
			}
			t.oblige("own.handoff", "go:"+name+":"+t.describe(a), in.Pos(), "false", "a borrowed message is handed to a goroutine that outlives the loan")
		}
	}
	// closures capturing a message variable: treated as borrowed inside the closure
}


// ownExempt: the functions that implement the reference count itself (message.go)
// are outside the discipline they provide; their own contracts are functional (C01/C17).
func (t *fnTrans) ownExempt() bool {
	return t.contract != nil && t.contract.ownPrimitive
}


// ownFrame: code that does not own a message never writes it (that is what the
// own.* sweep proves for every function), so a call cannot change Header/Body of a
// message the caller owns and did not pass to it.
func (t *fnTrans) ownFrame(pre *State, args []ssa.Value) {
	if _, used := t.h.sorts[ownHV]; !used {
		return
	}
	isArg := map[ssa.Value]bool{}
	for _, a := range args {
		isArg[a] = true
	}
	var T types.Type
	for v := range t.vals {
		if t.g.isMsgPtr(v.Type()) {
			T = deref(v.Type())
			break
		}
	}
	if T == nil {
		return
	}
	for _, fname := range []string{"Body", "Header"} {
		hv, _, ok := t.fieldHVByName(types.NewPointer(T), fname)
		if !ok {
			continue
		}
		a, b := t.h.get(pre, hv), t.h.get(t.cur, hv)
		if a == b {
			continue
		}
		for v, terms := range t.vals {
			if !t.g.isMsgPtr(v.Type()) || isArg[v] || len(terms) != 1 {
				continue
			}
			if _, isConst := v.(*ssa.Const); isConst {
				continue
			}
			x := terms[0]
			owned := "(>= " + sel(t.h.get(pre, ownHV), x) + " 1)"
			if p, isParam := v.(*ssa.Parameter); isParam && t.borrowedVal(p) {
				owned = "true"
			}
			t.assume(implies(owned, eq(sel(b, x), sel(a, x))))
		}
	}
}

// ownFresh: a message handed to this activation as new (allocation, Dup, a
// receive) is not one it already holds.
func (t *fnTrans) ownFresh(r string, cond string) {
	t.h.reg(ownHV, "(Array Int Int)")
	cs := []string{"(= " + t.ownGet(r) + " 0)"}
	for i, p := range t.fn.Params {
		if t.g.isMsgPtr(p.Type()) && t.g.paramMode(t.fn, p.Name(), i) == "borrows" {
			cs = append(cs, "(not (= "+r+" "+t.val(p)+"))")
		}
	}
	t.assume(implies(and(cond, "(not (= "+r+" 0))"), and(cs...)))
}


// ---- sharing (reference count > 1 possible) ----------------------------------------

func (t *fnTrans) sharedGet(x string) string {
	t.h.reg(sharedHV, "(Array Int Bool)")
	return sel(t.h.get(t.cur, sharedHV), x)
}

func (t *fnTrans) sharedSet(x string, v string, cond string) {
	t.h.reg(sharedHV, "(Array Int Bool)")
	cur := t.h.get(t.cur, sharedHV)
	t.h.set(t.cur, sharedHV, ite(and(cond, "(not (= "+x+" 0))"), store(cur, x, v), cur))
}

// a message whose fields are written must not be shared
func (t *fnTrans) ownWriteShared(in *ssa.Store, l *loc) {
	if t.ownExempt() || l.kind != locField || l.baseVal == nil || !t.g.isMsgPtr(l.baseVal.Type()) {
		return
	}
	if l.fname != "Header" && l.fname != "Body" {
		return
	}
	if t.local[l.baseVal] {
		return
	}
	t.oblige("own.write_shared", "write:"+l.fname+":"+t.describe(l.baseVal), in.Pos(), not(t.sharedGet(l.base)), "Header/Body of a message that may be shared (Clone'd) is modified; MakeUnique first")
}
