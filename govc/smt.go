package main

// SMT side of the generator: a per-function registry of declarations and
// ordered definitions (all symbols are |quoted| so that dependency slicing is
// a token scan), persistent heap states, and obligations.

import (
	"fmt"
	"go/token"
	"sort"
	"strings"
)

type def struct {
	name string // without bars
	sort string
	body string // "" => declare-const
	deps []string
	raw  string // if non-empty: emitted verbatim instead (declare-fun etc.)
}

type Obligation struct {
	Name   string
	Kind   string
	Func   string
	Pos    string
	Goal   string // bool term
	Reach  string // bool term (path condition incl. assumptions)
	Note   string
	Trivial bool // goal syntactically true
	// results
	Status string // unsat(discharged) | sat | unknown | timeout
	Solver string
	Ms     int64
	Model  string
	Query  string
	posv   token.Pos
	vkey   vpos // flattened position (helpers translated in place stand where their call stands)
	Vars   map[string]string // source-level name -> SMT term (for counterexample extraction)
	Values map[string]string
	Candidate bool // Values come from a weakened query (quantified assumptions dropped)
	flag   string // name of the Bool definition guarding "assume this goal afterwards" ("" = unconditional)
}

// FnCtx is the per-function SMT context.
type FnCtx struct {
	defs    []*def
	byName  map[string]*def
	axioms  []string // global assertions (instantiated facts); each sliced by deps
	axDeps  [][]string
	obls    []*Obligation
	counter int
	strLits map[string]string
	sorts   map[string]bool // datatype sorts declared (in prelude order)
	sortDecls []string
}

func newFnCtx() *FnCtx {
	return &FnCtx{byName: map[string]*def{}, strLits: map[string]string{}, sorts: map[string]bool{}}
}

func q(name string) string { return "|" + name + "|" }

func scanDeps(s string) []string {
	var out []string
	seen := map[string]bool{}
	for i := 0; i < len(s); i++ {
		if s[i] == '|' {
			j := strings.IndexByte(s[i+1:], '|')
			if j < 0 {
				break
			}
			n := s[i+1 : i+1+j]
			if !seen[n] {
				seen[n] = true
				out = append(out, n)
			}
			i = i + 1 + j
		}
	}
	return out
}

func (c *FnCtx) fresh(prefix string) string {
	c.counter++
	return fmt.Sprintf("%s!%d", prefix, c.counter)
}

// declare a constant (unconstrained). returns quoted name.
func (c *FnCtx) declare(name, sort string) string {
	if d, ok := c.byName[name]; ok {
		if d.sort != sort {
			panic(fmt.Sprintf("redeclare %s: %s vs %s", name, d.sort, sort))
		}
		return q(name)
	}
	d := &def{name: name, sort: sort, deps: scanDeps(sort)}
	c.defs = append(c.defs, d)
	c.byName[name] = d
	return q(name)
}

// declareFun declares an uninterpreted function once.
func (c *FnCtx) declareFun(name string, args []string, ret string) string {
	if _, ok := c.byName[name]; ok {
		return q(name)
	}
	raw := fmt.Sprintf("(declare-fun %s (%s) %s)", q(name), strings.Join(args, " "), ret)
	d := &def{name: name, sort: ret, raw: raw, deps: scanDeps(strings.Join(args, " ") + " " + ret)}
	c.defs = append(c.defs, d)
	c.byName[name] = d
	return q(name)
}

// define name = body. returns quoted name.
func (c *FnCtx) define(name, sort, body string) string {
	if _, ok := c.byName[name]; ok {
		panic("redefine " + name)
	}
	d := &def{name: name, sort: sort, body: body, deps: scanDeps(body + " " + sort)}
	c.defs = append(c.defs, d)
	c.byName[name] = d
	return q(name)
}

// axiom: a fact valid in every model (instantiated function axioms etc.).
// It is included in a query only when all of its symbols are already in the
// query's cone (relevance filter), which is sound (fewer assumptions).
// eaddrFun: address of element i of array a when the elements are structs; injective.
func (c *FnCtx) eaddrFun() string {
	if _, ok := c.byName["eaddr"]; ok {
		return q("eaddr")
	}
	ea := c.declareFun("eaddr", []string{"Int", "Int"}, "Int")
	ia := c.declareFun("eaddr.arr", []string{"Int"}, "Int")
	ii := c.declareFun("eaddr.idx", []string{"Int"}, "Int")
	c.axiom(fmt.Sprintf("(forall ((a Int) (i Int)) (! (and (= (%s (%s a i)) a) (= (%s (%s a i)) i)) :pattern ((%s a i))))", ia, ea, ii, ea, ea))
	return ea
}

func (c *FnCtx) axiom(a string) {
	c.axioms = append(c.axioms, a)
	c.axDeps = append(c.axDeps, scanDeps(a))
}

func (c *FnCtx) strLit(s string) string {
	if n, ok := c.strLits[s]; ok {
		return q(n)
	}
	n := fmt.Sprintf("str!%d", len(c.strLits))
	c.strLits[s] = n
	c.declare(n, "Str")
	return q(n)
}

// ---- query construction -------------------------------------------------

func (c *FnCtx) cone(terms ...string) map[string]bool {
	in := map[string]bool{}
	var stack []string
	for _, t := range terms {
		stack = append(stack, scanDeps(t)...)
	}
	for len(stack) > 0 {
		n := stack[len(stack)-1]
		stack = stack[:len(stack)-1]
		if in[n] {
			continue
		}
		in[n] = true
		if d, ok := c.byName[n]; ok {
			stack = append(stack, d.deps...)
		}
	}
	// an instantiated axiom is included iff every non-function symbol it
	// mentions is already in the cone (so it adds facts, never new terms)
	used := make([]bool, len(c.axioms))
	for i, deps := range c.axDeps {
		ok := true
		for _, d := range deps {
			if dd, isdef := c.byName[d]; isdef && dd.raw != "" {
				continue
			}
			if !in[d] {
				ok = false
				break
			}
		}
		if ok {
			used[i] = true
			for _, d := range deps {
				in[d] = true
			}
		}
	}
	in["\x00axioms"] = true
	for i, u := range used {
		if u {
			in[fmt.Sprintf("\x00ax%d", i)] = true
		}
	}
	return in
}

// preamble emits sorts + sliced defs for the given cone.
// assemble puts the fixed prelude and the optional axiom groups the text needs in front of it.
func assemble(body string) string {
	var b strings.Builder
	b.WriteString(prelude)
	for _, oa := range optionalAxioms {
		if strings.Contains(body, oa.sym) {
			b.WriteString(oa.text)
		}
	}
	b.WriteString(body)
	return b.String()
}

func (c *FnCtx) preamble(in map[string]bool) string {
	return c.preambleBody(in)
}

func (c *FnCtx) preambleBody(in map[string]bool) string {
	var b strings.Builder
	for _, s := range c.sortDecls {
		b.WriteString(s)
		b.WriteByte('\n')
	}
	for _, d := range c.defs {
		if !in[d.name] {
			continue
		}
		switch {
		case d.raw != "":
			b.WriteString(d.raw)
		case d.body == "":
			fmt.Fprintf(&b, "(declare-const %s %s)", q(d.name), d.sort)
		default:
			fmt.Fprintf(&b, "(define-fun %s () %s %s)", q(d.name), d.sort, d.body)
		}
		b.WriteByte('\n')
	}
	// distinct string literals
	var lits []string
	for s, n := range c.strLits {
		if in[n] {
			lits = append(lits, q(n))
			fmt.Fprintf(&b, "(assert (= (str_len %s) %d))\n", q(n), len(s))
			// first bytes of literal (up to 16) so that byte-level facts are available
			for i := 0; i < len(s) && i < 16; i++ {
				fmt.Fprintf(&b, "(assert (= (select (str_bytes %s) %d) %d))\n", q(n), i, s[i])
			}
		}
	}
	sort.Strings(lits)
	if len(lits) > 1 {
		fmt.Fprintf(&b, "(assert (distinct %s))\n", strings.Join(lits, " "))
	}
	for i, a := range c.axioms {
		if in[fmt.Sprintf("\x00ax%d", i)] {
			fmt.Fprintf(&b, "(assert %s)\n", a)
		}
	}
	return b.String()
}

func (c *FnCtx) queryWith(o *Obligation, extra []string) string {
	in := c.cone(append([]string{o.Goal, o.Reach}, extra...)...)
	var b strings.Builder
	b.WriteString(c.preamble(in))
	fmt.Fprintf(&b, "(assert %s)\n(assert (not %s))\n(check-sat)\n", o.Reach, o.Goal)
	return assemble(b.String())
}

func (c *FnCtx) queryFor(o *Obligation) string {
	in := c.cone(o.Goal, o.Reach)
	var b strings.Builder
	b.WriteString(c.preamble(in))
	fmt.Fprintf(&b, "(assert %s)\n(assert (not %s))\n(check-sat)\n", o.Reach, o.Goal)
	return assemble(b.String())
}

// ---- helpers ------------------------------------------------------------

func and(ts ...string) string {
	var xs []string
	for _, t := range ts {
		if t == "true" || t == "" {
			continue
		}
		if t == "false" {
			return "false"
		}
		xs = append(xs, t)
	}
	switch len(xs) {
	case 0:
		return "true"
	case 1:
		return xs[0]
	}
	return "(and " + strings.Join(xs, " ") + ")"
}

func or(ts ...string) string {
	var xs []string
	for _, t := range ts {
		if t == "false" || t == "" {
			continue
		}
		if t == "true" {
			return "true"
		}
		xs = append(xs, t)
	}
	switch len(xs) {
	case 0:
		return "false"
	case 1:
		return xs[0]
	}
	return "(or " + strings.Join(xs, " ") + ")"
}

func not(t string) string {
	switch t {
	case "true":
		return "false"
	case "false":
		return "true"
	}
	if strings.HasPrefix(t, "(not ") && strings.HasSuffix(t, ")") && balanced(t[5:len(t)-1]) {
		return t[5 : len(t)-1]
	}
	return "(not " + t + ")"
}

func balanced(s string) bool {
	d := 0
	inq := false
	for i := 0; i < len(s); i++ {
		switch s[i] {
		case '|':
			inq = !inq
		case '(':
			if !inq {
				d++
			}
		case ')':
			if !inq {
				d--
				if d < 0 {
					return false
				}
			}
		case ' ':
			if !inq && d == 0 {
				return false
			}
		}
	}
	return d == 0
}

func implies(a, b string) string {
	if a == "true" {
		return b
	}
	if a == "false" || b == "true" {
		return "true"
	}
	return "(=> " + a + " " + b + ")"
}

func ite(c, a, b string) string {
	if c == "true" {
		return a
	}
	if c == "false" {
		return b
	}
	if a == b {
		return a
	}
	return "(ite " + c + " " + a + " " + b + ")"
}

func eq(a, b string) string {
	if a == b {
		return "true"
	}
	return "(= " + a + " " + b + ")"
}

func sel(a, i string) string      { return "(select " + a + " " + i + ")" }
func store(a, i, v string) string { return "(store " + a + " " + i + " " + v + ")" }

func num(n int64) string {
	if n < 0 {
		return fmt.Sprintf("(- %d)", -n)
	}
	return fmt.Sprintf("%d", n)
}

var optionalAxioms = []struct{ sym, text string }{
	{"(isprint ", isprintDef()},
	{"(fnid ", "(declare-fun fnid (Int) Int)\n(assert (= (fnid 0) 0))\n"},
	{"(atoi_", "(declare-fun atoi_ok (Str) Bool)\n(declare-fun atoi_val (Str) Int)\n"},
	{"(ix ", `(declare-fun ix (Int Int) Int)
(assert (forall ((a Int) (b Int)) (! (= (ix a b) (+ a b)) :pattern ((ix a b)))))
`},
	{"(isprefix ", `(declare-fun isprefix ((Array Int Int) Int Int (Array Int Int) Int Int) Bool)
(assert (forall ((pa (Array Int Int)) (po Int) (pl Int) (sa (Array Int Int)) (so Int) (sl Int)) (! (= (isprefix pa po pl sa so sl) (and (<= pl sl) (forall ((j Int)) (=> (and (<= 0 j) (< j pl)) (= (select pa (+ po j)) (select sa (+ so j))))))) :pattern ((isprefix pa po pl sa so sl)))))
`},
	{"(byteseq ", `(declare-fun byteseq ((Array Int Int) Int Int (Array Int Int) Int Int) Bool)
(assert (forall ((pa (Array Int Int)) (po Int) (pl Int) (sa (Array Int Int)) (so Int) (sl Int)) (! (= (byteseq pa po pl sa so sl) (and (= pl sl) (forall ((j Int)) (=> (and (<= 0 j) (< j pl)) (= (select pa (+ po j)) (select sa (+ so j))))))) :pattern ((byteseq pa po pl sa so sl)))))
`},
}

const prelude = `(set-option :produce-models true)
(set-logic ALL)
(declare-sort Str 0)
(declare-datatypes ((Slice 0)) (((mk_slice (sl_arr Int) (sl_off Int) (sl_len Int) (sl_cap Int)))))
(declare-datatypes ((Iface 0)) (((mk_iface (itag Int) (iint Int) (istr Str) (ibool Bool) (ireal Real) (islice Slice)))))
(declare-datatypes ((Unit 0)) (((unit))))
(declare-fun str_len (Str) Int)
(declare-fun str_bytes (Str) (Array Int Int))
(declare-fun str_concat (Str Str) Str)
(declare-fun bytes_str ((Array Int Int) Int Int) Str)
(assert (forall ((s Str)) (! (= (bytes_str (str_bytes s) 0 (str_len s)) s) :pattern ((str_bytes s)))))
(declare-const str_empty Str)
(assert (= (str_len str_empty) 0))
(declare-fun chan_cap (Int) Int)
(define-fun nil_slice () Slice (mk_slice 0 0 0 0))
(define-fun nil_iface () Iface (mk_iface 0 0 str_empty false 0.0 nil_slice))
(define-fun tdiv ((a Int) (b Int)) Int (ite (>= a 0) (ite (> b 0) (div a b) (- (div a (- b)))) (ite (> b 0) (- (div (- a) b)) (div (- a) (- b)))))
(define-fun trem ((a Int) (b Int)) Int (- a (* b (tdiv a b))))
(define-fun be32 ((a (Array Int Int)) (o Int)) Int (+ (* 16777216 (select a o)) (* 65536 (select a (+ o 1))) (* 256 (select a (+ o 2))) (select a (+ o 3))))
(define-fun be16 ((a (Array Int Int)) (o Int)) Int (+ (* 256 (select a o)) (select a (+ o 1))))
(define-fun be64 ((a (Array Int Int)) (o Int)) Int (+ (* 4294967296 (be32 a o)) (be32 a (+ o 4))))
`

// nameTag: a distinct integer literal per event name (FNV-1a, 48 bits), so that
// `!called("X")` cannot be satisfied or refuted by aliasing X with another name.
func nameTag(name string) string {
	var h uint64 = 14695981039346656037
	for i := 0; i < len(name); i++ {
		h ^= uint64(name[i])
		h *= 1099511628211
	}
	return fmt.Sprint(1 + h%(1<<48))
}
