package main

// Type invariants over immutable fields, sync.Pool element invariants and package invariants
// (facts established by a package's init about state nobody writes afterwards).

import (
	"fmt"
	"go/token"
	"go/types"
	"regexp"
	"strings"

	"golang.org/x/tools/go/ssa"
)

// isTypeInv: the struct has invariants but neither a lock of its own nor a guarding lock elsewhere:
// its invariants may only talk about immutable fields, hold from construction on (checked at the
// returns of every function that allocates one) and are assumed for every pointer received as a
// parameter or obtained by a type assertion.
func (g *Gen) isTypeInv(sa *StructAnn) bool {
	return sa != nil && len(sa.invs) > 0 && len(sa.locks) == 0 && !g.hasForeignLock(sa)
}

var heapVarRe = regexp.MustCompile(`\|((?:F|G|E|MD|MV|ML|C):[^|@!]+)(?:[@!][^|]*)?\|`)

// stableTerm: every heap variable the term reads is never written after package initialisation.
func (t *fnTrans) stableTerm(term string) (bool, string) {
	for _, m := range heapVarRe.FindAllStringSubmatch(term, -1) {
		hv := m[1]
		switch {
		case t.g.ann.immutableHV[hv]:
		case strings.HasPrefix(hv, "G:") && !t.g.mutableGlobals[hv]:
		case strings.HasPrefix(hv, "F:") && !t.g.storedAfterInit()[hv]:
		default:
			return false, hv
		}
	}
	return true, ""
}

// storedAfterInit: heap variables some function other than a package initializer stores to directly.
func (g *Gen) storedAfterInit() map[string]bool {
	if g.storedLate != nil {
		return g.storedLate
	}
	g.storedLate = map[string]bool{}
	c := newFnCtx()
	for _, f := range g.allFuncs {
		if f.Name() == "init" && f.Parent() == nil {
			continue
		}
		s := &summary{vars: map[string]bool{}, locks: map[string]bool{}}
		for _, b := range f.Blocks {
			for _, in := range b.Instrs {
				if st, ok := in.(*ssa.Store); ok {
					g.noteStore(c, s, st.Addr)
				}
			}
		}
		for v := range s.vars {
			g.storedLate[v] = true
		}
		if s.all {
			g.storedLate["*"] = true
		}
	}
	return g.storedLate
}

func (t *fnTrans) assumeTypeInv(v string, ty types.Type) {
	pt, ok := ty.Underlying().(*types.Pointer)
	if !ok {
		return
	}
	sa := t.structAnnOf(pt)
	if !t.g.isTypeInv(sa) {
		return
	}
	obj := sval{term: v, typ: pt, sort: "Int"}
	for _, inv := range sa.invs {
		e := &evalCtx{t: t, fn: t.fn, st: t.cur, old: t.entry, binds: map[string]sval{}, this: &obj}
		t.quietSpec++
		term, ok := t.evalBool(e, inv)
		t.quietSpec--
		if !ok {
			continue
		}
		if stable, hv := t.stableTerm(term); !stable {
			t.g.ann.errs = append(t.g.ann.errs, fmt.Sprintf("%s:%d: invariant of lock-less struct %s reads %s, which is not immutable", inv.file, inv.line, sa.key, hv))
			continue
		}
		t.assume("(=> (not (= " + v + " 0)) " + term + ")")
	}
}

// packageInvariants: the postconditions of the package's init, assumed on entry of every other
// function of that package (the state they describe is checked to be write-once).
func (t *fnTrans) packageInvariants() {
	root := t.fn
	for root.Parent() != nil {
		root = root.Parent()
	}
	if root.Pkg == nil || (t.fn.Name() == "init" && t.fn.Parent() == nil) {
		return
	}
	initFn := root.Pkg.Func("init")
	if initFn == nil {
		return
	}
	fc := t.g.ann.funcs[t.g.contractKey(initFn)]
	if fc == nil {
		return
	}
	for _, en := range fc.ensures {
		e := &evalCtx{t: t, fn: initFn, st: t.cur, old: t.cur, binds: map[string]sval{}}
		t.quietSpec++
		term, ok := t.evalBool(e, en)
		t.quietSpec--
		if !ok {
			continue
		}
		if stable, hv := t.stableTerm(term); !stable {
			t.g.ann.errs = append(t.g.ann.errs, fmt.Sprintf("%s:%d: postcondition of init reads %s, which is written after initialisation: it cannot serve as a package invariant", en.file, en.line, hv))
			continue
		}
		t.assume(term)
	}
}

// ---- sync.Pool ---------------------------------------------------------------------------

// poolField resolves the struct field a *sync.Pool value was loaded from.
func (t *fnTrans) poolField(v ssa.Value) (sa *StructAnn, field string, owner sval, ok bool) {
	u, isU := v.(*ssa.UnOp)
	if !isU || u.Op != token.MUL {
		return nil, "", sval{}, false
	}
	fa, isFA := u.X.(*ssa.FieldAddr)
	if !isFA {
		return nil, "", sval{}, false
	}
	pt := fa.X.Type().Underlying().(*types.Pointer)
	st := pt.Elem().Underlying().(*types.Struct)
	sa = t.g.ann.structs[t.g.typeKey(pt.Elem())]
	if sa == nil {
		return nil, "", sval{}, false
	}
	field = st.Field(fa.Field).Name()
	if len(sa.poolInv[field]) == 0 {
		return nil, "", sval{}, false
	}
	return sa, field, sval{term: t.val(fa.X), typ: fa.X.Type(), sort: "Int"}, true
}

// (*sync.Pool).Get: nil (only when the pool has no New), something handed to Put earlier, or what New
// returns; the element invariant covers the last two (Put is checked; that New establishes it is the
// business of the init table obligations, see DESIGN 13.2i).
func (t *fnTrans) mPoolGet(in ssa.Instruction, cc *ssa.CallCommon, res ssa.Value) bool {
	if res == nil {
		return true
	}
	r := t.freshVal(res)
	sa, field, owner, ok := t.poolField(cc.Args[0])
	if !ok {
		return true
	}
	pool := t.val(cc.Args[0])
	// a pool with a constructor never returns nil
	if pt, isPtr := cc.Args[0].Type().Underlying().(*types.Pointer); isPtr {
		if st, isSt := pt.Elem().Underlying().(*types.Struct); isSt {
			for i := 0; i < st.NumFields(); i++ {
				if st.Field(i).Name() == "New" {
					hv, _, _ := t.fieldHV(pt.Elem(), i)
					t.assume("(=> (not (= " + sel(t.h.get(t.cur, hv), pool) + " 0)) (not (= (itag " + r + ") 0)))")
				}
			}
		}
	}
	for _, inv := range sa.poolInv[field] {
		e := &evalCtx{t: t, fn: t.fn, st: t.cur, old: t.entry, this: &owner, binds: map[string]sval{"elem": {term: r, typ: res.Type(), sort: "Iface"}}}
		if term, ok := t.evalBool(e, inv); ok {
			t.assume("(=> (not (= (itag " + r + ") 0)) " + term + ")")
		}
	}
	return true
}

func (t *fnTrans) mPoolPut(in ssa.Instruction, cc *ssa.CallCommon, res ssa.Value) bool {
	sa, field, owner, ok := t.poolField(cc.Args[0])
	if !ok {
		return true
	}
	x := t.val(cc.Args[1])
	for k, inv := range sa.poolInv[field] {
		e := &evalCtx{t: t, fn: t.fn, st: t.cur, old: t.entry, this: &owner, binds: map[string]sval{"elem": {term: x, typ: cc.Args[1].Type(), sort: "Iface"}}}
		if term, ok := t.evalBool(e, inv); ok {
			t.oblige("monitor", fmt.Sprintf("put:%s.%s:elem%d", sa.name, field, k+1), in.Pos(), term, "what is put into the pool must satisfy the pool's element invariant: "+inv.text)
		}
	}
	return true
}

// ---- method invariants ------------------------------------------------------------------
// `method_invariant E` on a struct: an object invariant in the classical sense, for fields that no lock
// guards (configuration state of listeners and dialers): every method of the type may assume it on entry
// for its receiver and must re-establish it at every return; functions that allocate the object must
// establish it (construct:).  It says nothing under concurrent calls -- neither does the code.

func (t *fnTrans) methodInvStruct() (*StructAnn, sval, bool) {
	if t.fn.Signature.Recv() == nil || len(t.fn.Params) == 0 {
		return nil, sval{}, false
	}
	p := t.fn.Params[0]
	if _, isPtr := p.Type().Underlying().(*types.Pointer); !isPtr {
		return nil, sval{}, false
	}
	sa := t.structAnnOf(p.Type())
	if sa == nil || len(sa.minvs) == 0 {
		return nil, sval{}, false
	}
	return sa, sval{term: t.val(p), typ: p.Type(), sort: "Int"}, true
}

func (t *fnTrans) methodInvEntry() {
	sa, recv, ok := t.methodInvStruct()
	if !ok {
		return
	}
	for _, inv := range sa.minvs {
		e := &evalCtx{t: t, fn: t.fn, st: t.cur, old: t.cur, binds: map[string]sval{}, this: &recv}
		if term, ok := t.evalBool(e, inv); ok {
			t.assume(term)
		}
	}
}

func (t *fnTrans) methodInvReturn(in *ssa.Return) {
	sa, recv, ok := t.methodInvStruct()
	if ok {
		for k, inv := range sa.minvs {
			e := &evalCtx{t: t, fn: t.fn, st: t.cur, old: t.entry, binds: map[string]sval{}, this: &recv}
			if term, ok := t.evalBool(e, inv); ok {
				t.oblige("monitor", fmt.Sprintf("exit:%s.minv%d@%s", sa.name, k+1, t.sites[in]), in.Pos(), term, "object invariant must hold again when the method returns: "+inv.text)
			}
		}
	}
	// objects of such a type allocated here
	for _, b := range t.allBlocks() {
		for _, bi := range b.Instrs {
			a, isA := bi.(*ssa.Alloc)
			if !isA || !a.Heap {
				continue
			}
			if _, done := t.vals[a]; !done || !t.dominates(b, in.Block()) {
				continue
			}
			sa := t.structAnnOf(a.Type())
			if sa == nil || len(sa.minvs) == 0 {
				continue
			}
			obj := sval{term: t.val(a), typ: a.Type(), sort: "Int"}
			for k, inv := range sa.minvs {
				e := &evalCtx{t: t, fn: t.fn, st: t.cur, old: t.entry, binds: map[string]sval{}, this: &obj}
				if term, ok := t.evalBool(e, inv); ok {
					t.oblige("monitor", fmt.Sprintf("construct:%s.minv%d", sa.name, k+1), in.Pos(), term, "an object allocated here must satisfy its object invariant when the function returns: "+inv.text)
				}
			}
		}
	}
}
