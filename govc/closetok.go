package main

// Close permissions ("close tokens"): a proof discipline for `close(ch)` never panicking.
//
// Exactly one party holds the permission to close a channel.  A fresh channel's permission is
// with the activation that made it.  Storing the channel into a struct field declared
//     //@ close_token F            (swap discipline)   or
//     //@ close_token F when flag  (flag discipline)
// hands the permission to the structure.  It comes back to an activation
//   - swap: by reading F under its lock; if at Unlock (or return) F still holds that channel
//     the permission silently returns to the structure (and the channel must still be open),
//     otherwise the activation has swapped it out and keeps the permission;
//   - flag: by flipping the guarded bool `flag` from false to true under its lock (the flag may
//     never be reset on a shared object);
//   - by a function clause `may_close E once` (the function is the body of a sync.Once.Do:
//     checked syntactically) or `may_close E caller` (an assumption about the callers, listed).
// close(x) needs the permission and consumes it.  Because permissions are exclusive, a channel
// whose permission is obtained has not been closed by anybody else: that fact is assumed when
// the permission is granted and is what discharges the safe.close obligation.
//
// Obligation kind: own.closetoken.

import (
	"fmt"
	"go/token"
	"go/types"
	"strings"

	"golang.org/x/tools/go/ssa"
)

const mayCloseHV = "ghost:mayclose"

type tokLoad struct {
	in    *ssa.UnOp
	hv    string // field heap
	base  string // object term
	x     string // loaded channel
	execV string // ghost flag heap var
	key   string // lock key term ("" when unknown)
}

type mayCloseClause struct {
	sl  specLine
	why string // "once" | "caller"
}

func (t *fnTrans) mayCloseGet(x string) string {
	t.h.reg(mayCloseHV, "(Array Int Bool)")
	return sel(t.h.get(t.cur, mayCloseHV), x)
}

func (t *fnTrans) mayCloseSet(x, v, cond string) {
	t.h.reg(mayCloseHV, "(Array Int Bool)")
	cur := t.h.get(t.cur, mayCloseHV)
	t.h.set(t.cur, mayCloseHV, ite(cond, store(cur, x, v), cur))
}

func (t *fnTrans) tokEntry() {
	t.h.reg(mayCloseHV, "(Array Int Bool)")
	t.assume(eq(t.h.get(t.cur, mayCloseHV), "((as const (Array Int Bool)) false)"))
	// pre-register an "executed" flag for every load of a swap-discipline token field
	t.tokByInstr = map[*ssa.UnOp]*tokLoad{}
	for _, b := range t.allBlocks() {
		for _, in := range b.Instrs {
			u, ok := in.(*ssa.UnOp)
			if !ok || u.Op != token.MUL {
				continue
			}
			fa, ok := u.X.(*ssa.FieldAddr)
			if !ok {
				continue
			}
			pt, ok := fa.X.Type().Underlying().(*types.Pointer)
			if !ok {
				continue
			}
			st, ok := pt.Elem().Underlying().(*types.Struct)
			if !ok {
				continue
			}
			sa := t.g.ann.structs[t.g.typeKey(pt.Elem())]
			if sa == nil || sa.closeTok == nil {
				continue
			}
			if flag, has := sa.closeTok[st.Field(fa.Field).Name()]; !has || flag != "" {
				continue
			}
			ev := t.h.reg(fmt.Sprintf("ghost:tokld:%d", len(t.tokLoads)), "Bool")
			t.h.set(t.cur, ev, "false")
			tl := &tokLoad{in: u, execV: ev}
			t.tokLoads = append(t.tokLoads, tl)
			t.tokByInstr[u] = tl
		}
	}
	if t.contract != nil {
		for i, mc := range t.contract.mayClose {
			hv := t.h.reg(fmt.Sprintf("ghost:tokused:%d", i), "Bool")
			t.h.set(t.cur, hv, "false")
			if mc.why == "once" && !t.isOnceBody() {
				o := t.oblige("contract", fmt.Sprintf("%s:%d:not-once-body", mc.sl.file, mc.sl.line), token.NoPos, "false", "may_close ... once: the function is not (only) the body of a sync.Once.Do")
				o.Trivial = false
				o.Reach = "true"
			}
			if mc.why == "caller" {
				t.abstract("assumed close permission from the callers: may_close " + mc.sl.text + " (each caller invokes this at most once per channel and nobody else closes it)")
			}
		}
	}
}

// isOnceBody: the function is an anonymous closure whose only use is as the argument of (*sync.Once).Do.
func (t *fnTrans) isOnceBody() bool {
	parent := t.fn.Parent()
	if parent == nil {
		return false
	}
	isDo := func(in ssa.Instruction) bool {
		call, ok := in.(ssa.CallInstruction)
		if !ok {
			return false
		}
		callee := call.Common().StaticCallee()
		return callee != nil && callee.String() == "(*sync.Once).Do"
	}
	uses := 0
	for _, b := range parent.Blocks {
		for _, in := range b.Instrs {
			if mc, ok := in.(*ssa.MakeClosure); ok && mc.Fn == t.fn {
				refs := mc.Referrers()
				if refs == nil {
					return false
				}
				for _, r := range *refs {
					if _, dbg := r.(*ssa.DebugRef); dbg {
						continue
					}
					if !isDo(r) {
						return false
					}
					uses++
				}
				continue
			}
			// a closure without free variables is used as a plain function value
			for _, op := range in.Operands(nil) {
				if *op == ssa.Value(t.fn) {
					if _, dbg := in.(*ssa.DebugRef); dbg {
						continue
					}
					if !isDo(in) {
						return false
					}
					uses++
				}
			}
		}
	}
	return uses > 0
}

func (t *fnTrans) tokField(l *loc) (flag string, ok bool) {
	if l == nil || l.kind != locField || l.owner == "" {
		return "", false
	}
	sa := t.g.ann.structs[l.owner]
	if sa == nil || sa.closeTok == nil {
		return "", false
	}
	flag, ok = sa.closeTok[l.fname]
	return
}

// fieldLockHeld: SMT term "the lock guarding this field is held" (true for private objects).
func (t *fnTrans) fieldLockHeld(owner, fname string, ownerT types.Type, base string, baseVal ssa.Value) (term, key string) {
	if baseVal != nil && t.local[baseVal] {
		return "true", ""
	}
	if t.privateCtx() {
		return "true", ""
	}
	sa := t.g.ann.structs[owner]
	if sa == nil {
		return "false", ""
	}
	fa := sa.fields[fname]
	if fa == nil || fa.kind != "guarded" {
		return "false", ""
	}
	k, ok := t.lockKeyFrom(ownerT, base, fa.lock)
	if !ok {
		return "false", ""
	}
	goal := sel(t.h.get(t.cur, "held"), k)
	if strings.Contains(fa.lock, ".") {
		if lk, _ := t.g.resolveLockPath(ownerT, fa.lock); lk != "" {
			goal = or(goal, t.heldOfType(lk))
			return goal, ""
		}
	}
	return goal, k
}

// make(chan): the maker holds the permission
func (t *fnTrans) tokMake(r string) {
	t.mayCloseSet(r, "true", "true")
	t.tokMade = append(t.tokMade, r)
}

// load of a swap-discipline token field
func (t *fnTrans) tokLoadHook(in *ssa.UnOp, l *loc) {
	flag, ok := t.tokField(l)
	if !ok || flag != "" {
		return
	}
	if l.baseVal != nil && t.local[l.baseVal] {
		return
	}
	held, key := t.fieldLockHeld(l.owner, l.fname, l.ownerT, l.base, l.baseVal)
	if held == "false" {
		return
	}
	x := t.val(in)
	// exclusivity: a channel whose permission this activation still holds is in no token field
	for _, m := range t.tokMade {
		t.assume(implies(t.mayCloseGet(m), not(eq(x, m))))
	}
	t.assume(implies(held, not(sel(t.h.get(t.cur, "chclosed"), x))))
	t.mayCloseSet(x, "true", held)
	tl := t.tokByInstr[in]
	if tl == nil {
		return
	}
	tl.hv, tl.base, tl.x, tl.key = l.hv, l.base, x, key
	t.h.set(t.cur, tl.execV, held)
}

// the lock with key k is released (Unlock / cond.Wait); k == "" means "every lock" (return)
func (t *fnTrans) tokRelease(k string, pos token.Pos, what string) {
	for i, tl := range t.tokLoads {
		if tl.x == "" {
			continue // not translated yet: cannot have executed on this path
		}
		cond := t.h.get(t.cur, tl.execV)
		if k != "" && tl.key != "" {
			cond = and(cond, eq(tl.key, k))
		}
		curv := sel(t.h.get(t.cur, tl.hv), tl.base)
		still := and(cond, eq(curv, tl.x))
		t.oblige("own.closetoken", fmt.Sprintf("%s:keeps-open:%s#%d", what, t.describe(tl.in), i), pos,
			implies(still, not(sel(t.h.get(t.cur, "chclosed"), tl.x))),
			"a channel left in a close_token field when its lock is released must still be open")
		t.mayCloseSet(tl.x, "false", still)
		t.h.set(t.cur, tl.execV, ite(cond, "false", t.h.get(t.cur, tl.execV)))
	}
}

// store into a token field: the permission moves into the structure
func (t *fnTrans) tokStoreHook(in *ssa.Store, l *loc) {
	if _, ok := t.tokField(l); ok {
		v := t.val(in.Val)
		old := t.load(l)
		t.oblige("own.closetoken", "store:"+l.fname+":"+t.describe(in.Val), in.Pos(),
			or("(= "+v+" 0)", eq(v, old), t.mayCloseGet(v)),
			"only a channel whose close permission we hold may be put into a close_token field")
		t.mayCloseSet(v, "false", not(eq(v, old)))
		return
	}
	// flag flips
	if l == nil || l.kind != locField || l.owner == "" {
		return
	}
	sa := t.g.ann.structs[l.owner]
	if sa == nil || sa.closeTok == nil {
		return
	}
	for f, flag := range sa.closeTok {
		if flag != l.fname {
			continue
		}
		st, ok := deref(l.ownerT).Underlying().(*types.Struct)
		if !ok {
			continue
		}
		fi := -1
		for j := 0; j < st.NumFields(); j++ {
			if st.Field(j).Name() == f {
				fi = j
			}
		}
		if fi < 0 {
			continue
		}
		fhv, _, _ := t.fieldHV(deref(l.ownerT), fi)
		x := sel(t.h.get(t.cur, fhv), l.base)
		oldflag := t.load(l)
		nv := t.val(in.Val)
		private := l.baseVal != nil && t.local[l.baseVal]
		if !private {
			held, _ := t.fieldLockHeld(l.owner, l.fname, l.ownerT, l.base, l.baseVal)
			t.oblige("own.closetoken", "flag:"+l.fname+":reset", in.Pos(), or(nv, not(oldflag)),
				"the flag of a `close_token F when flag` field is never reset on a shared object")
			grant := and(nv, not(oldflag), held)
			t.assume(implies(grant, not(sel(t.h.get(t.cur, "chclosed"), x))))
			t.mayCloseSet(x, "true", grant)
		}
	}
}

// close(x), part A: permissions from may_close clauses (with the fact that comes with them)
func (t *fnTrans) tokCloseGrants(x string) []string {
	have := t.mayCloseGet(x)
	var alts []string
	if t.contract != nil && len(t.contract.mayClose) > 0 {
		e := t.selfCtx()
		for i, mc := range t.contract.mayClose {
			v, ok := t.evalTerm(e, mc.sl)
			if !ok {
				continue
			}
			used := t.h.reg(fmt.Sprintf("ghost:tokused:%d", i), "Bool")
			m := and(eq(x, v), not(t.h.get(t.cur, used)), not(have))
			t.assume(implies(m, not(sel(t.h.get(t.cur, "chclosed"), x))))
			alts = append(alts, m)
			t.h.set(t.cur, used, or(t.h.get(t.cur, used), m))
		}
	}
	return alts
}

// close(x), part B (after the safe.close obligation, so that a missing permission cannot make
// that obligation vacuously true)
func (t *fnTrans) tokClose(in ssa.Instruction, arg ssa.Value, x string, alts []string) {
	have := t.mayCloseGet(x)
	t.oblige("own.closetoken", "close:"+t.describe(arg), in.Pos(), or(append([]string{have}, alts...)...),
		"close() without holding the channel's close permission (somebody else may close it too: double close panics)")
	t.mayCloseSet(x, "false", "true")
}

// loop head: loads inside the loop have not run in this iteration
func (t *fnTrans) tokLoopHead(li *loopInfo, entry *State) {
	for _, tl := range t.tokLoads {
		if li.blocks[tl.in.Block()] {
			t.h.set(t.cur, tl.execV, "false")
		} else {
			t.h.set(t.cur, tl.execV, t.h.get(entry, tl.execV))
		}
	}
}
