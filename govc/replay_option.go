package main

// Replay for option postconditions (C19): run the real SetOption on the model's (option, value)
// and evaluate the violated clause on the observed result with a small concrete evaluator.
// If the solver gave no usable value, boundary values of every option type are tried instead
// (reported as such).

import (
	"fmt"
	"go/constant"
	"go/types"
	"regexp"
	"strconv"
	"strings"
)

type cval struct {
	kind string // "int" "bool" "str" "err" "iface"
	i    int64
	b    bool
	s    string
	// iface payload
	tname string // "int" "time.Duration" "bool" "string" "nil" "other"
}

type concEnv struct {
	g      *Gen
	vars   map[string]cval
	failed string
}

func (e *concEnv) fail(f string, a ...interface{}) cval {
	if e.failed == "" {
		e.failed = fmt.Sprintf(f, a...)
	}
	return cval{}
}

func (e *concEnv) pkgConst(pkg, name string) (cval, bool) {
	for _, p := range e.g.pkgs {
		if p.Types == nil {
			continue
		}
		for _, imp := range append([]*types.Package{p.Types}, p.Types.Imports()...) {
			if imp.Name() != pkg {
				continue
			}
			o := imp.Scope().Lookup(name)
			switch o := o.(type) {
			case *types.Const:
				switch o.Val().Kind() {
				case constant.String:
					return cval{kind: "str", s: constant.StringVal(o.Val())}, true
				case constant.Int:
					n, _ := constant.Int64Val(o.Val())
					return cval{kind: "int", i: n}, true
				case constant.Bool:
					return cval{kind: "bool", b: constant.BoolVal(o.Val())}, true
				}
			case *types.Var:
				if strings.HasPrefix(name, "Err") {
					return cval{kind: "err", s: name}, true
				}
			}
		}
	}
	return cval{}, false
}

func (e *concEnv) eval(x *sx) cval {
	switch x.op {
	case "num":
		n, err := strconv.ParseInt(x.val, 0, 64)
		if err != nil {
			return e.fail("number %s", x.val)
		}
		return cval{kind: "int", i: n}
	case "str":
		return cval{kind: "str", s: x.val}
	case "id":
		switch x.val {
		case "true":
			return cval{kind: "bool", b: true}
		case "false":
			return cval{kind: "bool", b: false}
		}
		if v, ok := e.vars[x.val]; ok {
			return v
		}
		return e.fail("identifier %s is not an input or the result", x.val)
	case "sel":
		if x.args[0].op == "id" {
			if v, ok := e.pkgConst(x.args[0].val, x.val); ok {
				return v
			}
		}
		return e.fail("selector .%s (state of the object is not observed by this replay)", x.val)
	case "un":
		v := e.eval(x.args[0])
		switch x.val {
		case "!":
			return cval{kind: "bool", b: !v.b}
		case "-":
			return cval{kind: "int", i: -v.i}
		}
	case "bin":
		switch x.val {
		case "==>":
			a := e.eval(x.args[0])
			if !a.b {
				return cval{kind: "bool", b: true}
			}
			return e.eval(x.args[1])
		case "&&":
			a := e.eval(x.args[0])
			if !a.b {
				return cval{kind: "bool", b: false}
			}
			return e.eval(x.args[1])
		case "||":
			a := e.eval(x.args[0])
			if a.b {
				return cval{kind: "bool", b: true}
			}
			return e.eval(x.args[1])
		}
		a, b := e.eval(x.args[0]), e.eval(x.args[1])
		switch x.val {
		case "<==>":
			return cval{kind: "bool", b: a.b == b.b}
		case "==", "!=":
			eq := false
			switch {
			case a.kind == "err" || b.kind == "err":
				eq = a.s == b.s
			case a.kind == "str":
				eq = a.s == b.s
			case a.kind == "bool":
				eq = a.b == b.b
			default:
				eq = a.i == b.i
			}
			return cval{kind: "bool", b: eq == (x.val == "==")}
		case "<":
			return cval{kind: "bool", b: a.i < b.i}
		case "<=":
			return cval{kind: "bool", b: a.i <= b.i}
		case ">":
			return cval{kind: "bool", b: a.i > b.i}
		case ">=":
			return cval{kind: "bool", b: a.i >= b.i}
		case "+":
			return cval{kind: "int", i: a.i + b.i}
		case "-":
			return cval{kind: "int", i: a.i - b.i}
		case "*":
			return cval{kind: "int", i: a.i * b.i}
		}
	case "call":
		f := x.args[0]
		if f.op != "id" || len(x.args) != 2 {
			return e.fail("call form")
		}
		v := e.eval(x.args[1])
		switch f.val {
		case "isnil":
			if v.kind == "err" {
				return cval{kind: "bool", b: v.s == "nil"}
			}
			return cval{kind: "bool", b: v.kind == "iface" && v.tname == "nil"}
		case "is_int":
			return cval{kind: "bool", b: v.tname == "int"}
		case "is_bool":
			return cval{kind: "bool", b: v.tname == "bool"}
		case "is_string":
			return cval{kind: "bool", b: v.tname == "string"}
		case "is_duration":
			return cval{kind: "bool", b: v.tname == "time.Duration"}
		case "int_of":
			return cval{kind: "int", i: v.i}
		case "bool_of":
			return cval{kind: "bool", b: v.b}
		}
		return e.fail("spec function %s is not evaluated concretely", f.val)
	}
	return e.fail("expression form %s %s", x.op, x.val)
}

type optValue struct {
	goLit string
	v     cval
}

func boundaryValues() []optValue {
	mk := func(lit, tn string, i int64, b bool) optValue {
		return optValue{lit, cval{kind: "iface", tname: tn, i: i, b: b}}
	}
	return []optValue{
		mk("int(-1)", "int", -1, false), mk("int(0)", "int", 0, false), mk("int(1)", "int", 1, false), mk("int(255)", "int", 255, false), mk("int(256)", "int", 256, false),
		mk("time.Duration(-1)", "time.Duration", -1, false), mk("time.Duration(0)", "time.Duration", 0, false), mk("time.Duration(1000000)", "time.Duration", 1000000, false),
		mk("true", "bool", 0, true), mk("false", "bool", 0, false), mk(`"x"`, "string", 0, false), mk("nil", "nil", 0, false), mk("struct{}{}", "other", 0, false),
	}
}

var optFuncRe = regexp.MustCompile(`^\(\*protocol/([a-z0-9]+)\.(socket|context)\)\.SetOption$`)
var ifaceModelRe = regexp.MustCompile(`^\(mk_iface (\(- \d+\)|-?\d+) (\(- \d+\)|-?\d+) \S+ (true|false)`)
var optNameRe = regexp.MustCompile(`name == ((?:protocol|mangos)\.Option\w+)`)

func init() {
	replayTemplates = append(replayTemplates, &replayTemplate{
		name: "option_set.go.tmpl",
		match: func(o *Obligation) bool {
			return o.Kind == "post" && optFuncRe.MatchString(o.Func) && strings.HasPrefix(o.Note, "ensures ")
		},
		run: replayOptionSet,
	})
}

func replayOptionSet(g *Gen, o *Obligation, model map[string]string) (bool, string) {
	m := optFuncRe.FindStringSubmatch(o.Func)
	pkg, recv := m[1], m[2]
	clause := strings.TrimPrefix(o.Note, "ensures ")
	x, err := parseSpec(clause)
	if err != nil {
		return false, "clause not parsed: " + err.Error()
	}
	nameLit, nameVal := `"no-such-option"`, "no-such-option"
	if nm := optNameRe.FindStringSubmatch(clause); nm != nil {
		parts := strings.SplitN(nm[1], ".", 2)
		env := &concEnv{g: g}
		if c, ok := env.pkgConst(parts[0], parts[1]); ok {
			nameLit, nameVal = "protocol."+parts[1], c.s
		}
	}
	// the model's value first, then boundary values
	var cands []optValue
	if tg, ok := model["value.tag"]; ok {
		tag, _ := strconv.Atoi(tg)
		n, _ := strconv.ParseInt(model["value.int"], 10, 64)
		tn := g.tagNames[tag]
		switch tn {
		case "int":
			cands = append(cands, optValue{fmt.Sprintf("int(%d)", n), cval{kind: "iface", tname: "int", i: n}})
		case "time.Duration":
			cands = append(cands, optValue{fmt.Sprintf("time.Duration(%d)", n), cval{kind: "iface", tname: "time.Duration", i: n}})
		case "bool":
			b := model["value.bool"] == "true"
			cands = append(cands, optValue{fmt.Sprint(b), cval{kind: "iface", tname: "bool", b: b}})
		}
	}
	nModel := len(cands)
	cands = append(cands, boundaryValues()...)
	var log []string
	for k, c := range cands {
		_, out := runReplay("protocol/"+pkg, "option_set.go.tmpl", map[string]string{
			"PKG": pkg, "TARGET": recv, "CTX": fmt.Sprint(recv == "context"), "NAME": nameLit, "VALUE": c.goLit}, "TestZZReplayOptionSet")
		rm := regexp.MustCompile(`REPLAY-RESULT (\S+)`).FindStringSubmatch(out)
		if rm == nil {
			log = append(log, fmt.Sprintf("value %s: replay did not run: %s", c.goLit, firstLine(out)))
			if strings.Contains(out, "build failed") || strings.Contains(out, "cannot use") {
				break
			}
			continue
		}
		res := rm[1]
		if strings.HasPrefix(res, "PANIC") {
			return true, fmt.Sprintf("SetOption(%q, %s) on a fresh %s panics: %s", nameVal, c.goLit, recv, out)
		}
		env := &concEnv{g: g, vars: map[string]cval{
			"name":   {kind: "str", s: nameVal},
			"value":  c.v,
			"result": {kind: "err", s: res},
		}}
		v := env.eval(x)
		if env.failed != "" {
			return false, "the violated clause talks about more than (name, value, result): " + env.failed + "; no concrete replay"
		}
		src := "a boundary value (the solver's model had no usable value)"
		if k < nModel {
			src = "the value of the solver's model"
		}
		log = append(log, fmt.Sprintf("SetOption(%q, %s) = %s: clause %v", nameVal, c.goLit, res, v.b))
		if !v.b {
			return true, fmt.Sprintf("real code, fresh %s of package %s: SetOption(%q, %s) returned %s, which falsifies `%s` (input: %s)\n%s", recv, pkg, nameVal, c.goLit, res, clause, src, strings.Join(log, "\n"))
		}
	}
	return false, "no tried input falsifies the clause on the real code:\n" + strings.Join(log, "\n")
}

