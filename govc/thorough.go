package main

// Thorough tier, in addition to the quick tier's work with 60 s solver budgets:
//  (1) cross-check: every discharged, non-trivial obligation is re-solved on its own (not in the
//      incremental session that discharged it) by the other two installed solvers; a `sat` from
//      either is a solver disagreement and breaks the check;
//  (2) adequacy: every seeded change and every re-introduced defect recorded for the property is
//      applied to a scratch copy of the repository (never to /repo) and the quick check is run on
//      the copy; it must report a violation. The scratch copy is removed afterwards.

import (
	"fmt"
	"os"
	"os/exec"
	"path/filepath"
	"runtime"
	"sort"
	"strings"
	"sync"
	"time"
)

type crossStats struct {
	Total      int      `json:"cross_checked"`
	Confirmed  int      `json:"confirmed_unsat_by_second_solver"`
	Unknown    int      `json:"second_solvers_unknown_or_timeout"`
	Disagree   []string `json:"disagreements"`
	BySolver   map[string]int `json:"confirmed_by"`
}

func crossCheck(res *runResult, obls []*Obligation, timeoutMs int) *crossStats {
	st := &crossStats{BySolver: map[string]int{}}
	var mu sync.Mutex
	var wg sync.WaitGroup
	sem := make(chan struct{}, runtime.NumCPU())
	for _, o := range obls {
		c := res.ctxOf[o]
		if c == nil || o.Trivial || o.Status != "unsat" {
			continue
		}
		wg.Add(1)
		sem <- struct{}{}
		go func(o *Obligation, c *FnCtx) {
			defer wg.Done()
			defer func() { <-sem }()
			query := c.queryFor(o)
			confirmed, disagree := "", ""
			for _, sp := range solvers(timeoutMs) {
				if strings.HasPrefix(o.Solver, sp.name) {
					continue // the one that discharged it
				}
				out, _ := runSolver(sp, query, time.Duration(timeoutMs+3000)*time.Millisecond)
				switch firstLine(out) {
				case "unsat":
					if confirmed == "" {
						confirmed = sp.name
					}
				case "sat":
					disagree = sp.name
				}
			}
			mu.Lock()
			st.Total++
			switch {
			case disagree != "":
				st.Disagree = append(st.Disagree, o.Name+" (unsat by "+o.Solver+", sat by "+disagree+")")
			case confirmed != "":
				st.Confirmed++
				st.BySolver[confirmed]++
			default:
				st.Unknown++
			}
			mu.Unlock()
		}(o, c)
	}
	wg.Wait()
	sort.Strings(st.Disagree)
	return st
}

type adequacy struct {
	Total   int      `json:"changes_tried"`
	Caught  int      `json:"caught"`
	Skipped []string `json:"skipped"` // patch does not apply to the current tree
	Missed  []string `json:"missed"`
	Items   []string `json:"items"`
}

// runAdequacy applies each recorded breaking change for property id to a scratch copy of dir.
func runAdequacy(self, dir, id string) *adequacy {
	ad := &adequacy{}
	type item struct{ name, patch string }
	var items []item
	seeded, _ := filepath.Glob("/verif/seeded/" + id + "-*")
	sort.Strings(seeded)
	for _, d := range seeded {
		p := filepath.Join(d, "patch.rebased.diff")
		if _, err := os.Stat(p); err != nil {
			p = filepath.Join(d, "patch.diff")
		}
		if nb, err := os.ReadFile(filepath.Join(d, "NOTE.txt")); err == nil && strings.Contains(string(nb), "not required to be reported") {
			ad.Skipped = append(ad.Skipped, "seeded/"+filepath.Base(d)+": obsolete on the repaired tree (see its NOTE.txt)")
			continue
		}
		items = append(items, item{"seeded/" + filepath.Base(d), p})
	}
	if b, err := os.ReadFile("/verif/selftest/reintroduced/INDEX.tsv"); err == nil {
		for _, l := range strings.Split(string(b), "\n") {
			f := strings.Split(l, "\t")
			if len(f) >= 2 && f[1] == id {
				items = append(items, item{"reintroduced/" + f[0], "/verif/selftest/reintroduced/" + f[0] + ".diff"})
			}
		}
	}
	var mu sync.Mutex
	var wg sync.WaitGroup
	sem := make(chan struct{}, 4)
	for _, it := range items {
		wg.Add(1)
		sem <- struct{}{}
		go func(it item) {
			defer wg.Done()
			defer func() { <-sem }()
			scratch, err := os.MkdirTemp("", "govc-adequacy-")
			if err != nil {
				return
			}
			defer os.RemoveAll(scratch)
			repo := filepath.Join(scratch, "repo")
			if out, err := exec.Command("rsync", "-a", "--exclude", ".git", dir+"/", repo+"/").CombinedOutput(); err != nil {
				mu.Lock()
				ad.Skipped = append(ad.Skipped, it.name+": copy failed: "+string(out))
				mu.Unlock()
				return
			}
			ap := exec.Command("git", "apply", it.patch) // outside any repository: a plain patch applier
			ap.Dir = repo
			if out, err := ap.CombinedOutput(); err != nil {
				mu.Lock()
				ad.Skipped = append(ad.Skipped, it.name+": patch does not apply to the current tree ("+firstLine(string(out))+")")
				mu.Unlock()
				return
			}
			cmd := exec.Command(self, "check", "-dir", repo, "-tier", "quick", "-out", filepath.Join(scratch, "out"), "-noadequacy", id)
			out, _ := cmd.CombinedOutput()
			rc := cmd.ProcessState.ExitCode()
			nviol := strings.Count(string(out), "\nVIOLATION ") + boolInt(strings.HasPrefix(string(out), "VIOLATION "))
			mu.Lock()
			ad.Total++
			if rc == 1 && nviol > 0 {
				ad.Caught++
				ad.Items = append(ad.Items, fmt.Sprintf("%s: caught (%d violation lines)", it.name, nviol))
			} else {
				ad.Missed = append(ad.Missed, fmt.Sprintf("%s: NOT caught (exit %d)", it.name, rc))
			}
			mu.Unlock()
		}(it)
	}
	wg.Wait()
	sort.Strings(ad.Items)
	sort.Strings(ad.Missed)
	sort.Strings(ad.Skipped)
	return ad
}

func boolInt(b bool) int {
	if b {
		return 1
	}
	return 0
}
