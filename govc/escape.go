package main

import "golang.org/x/tools/go/ssa"

// captured returns the Alloc in an enclosing function that free variable fv of fn is bound to.
func (g *Gen) captured(fn *ssa.Function, fv *ssa.FreeVar) *ssa.Alloc {
	parent := fn.Parent()
	if parent == nil {
		return nil
	}
	idx := -1
	for i, x := range fn.FreeVars {
		if x == fv {
			idx = i
		}
	}
	if idx < 0 {
		return nil
	}
	for _, b := range parent.Blocks {
		for _, in := range b.Instrs {
			if mc, ok := in.(*ssa.MakeClosure); ok && mc.Fn == fn {
				switch bv := mc.Bindings[idx].(type) {
				case *ssa.Alloc:
					return bv
				case *ssa.FreeVar:
					return g.captured(parent, bv)
				}
			}
		}
	}
	return nil
}

var singleStoreCache = map[*ssa.Alloc]bool{}

// singleStore: the cell is written at most once (its initialisation), is never
// address-leaked other than into closures, so every load sees that one value.
func (g *Gen) singleStore(a *ssa.Alloc) bool {
	if r, ok := singleStoreCache[a]; ok {
		return r
	}
	n, ok := g.countStores(a)
	r := ok && n <= 1
	singleStoreCache[a] = r
	return r
}

func (g *Gen) countStores(v ssa.Value) (int, bool) {
	n := 0
	refs := v.Referrers()
	if refs == nil {
		return 0, false
	}
	for _, in := range *refs {
		switch x := in.(type) {
		case *ssa.Store:
			if x.Addr == v {
				n++
			} else {
				return 0, false // address stored somewhere
			}
		case *ssa.UnOp, *ssa.DebugRef:
		case *ssa.MakeClosure:
			fn := x.Fn.(*ssa.Function)
			for i, b := range x.Bindings {
				if b == v {
					m, ok := g.countStores(fn.FreeVars[i])
					if !ok {
						return 0, false
					}
					n += m
				}
			}
		default:
			return 0, false
		}
	}
	return n, true
}
