package main

// Contract files: /repo/<pkg>/contracts_verif.go — comment-only Go files behind
// the build tag `verif`, holding //@ lines (DESIGN §3, Appendix B).

import (
	"sort"
	"bufio"
	"fmt"
	"go/types"
	"os"
	"path/filepath"
	"strings"

	"golang.org/x/tools/go/ssa"
)

type fieldAnn struct {
	kind   string // guarded | immutable | atomic | racy | owner
	lock   string // path relative to the struct, e.g. "Mutex" or "s.Mutex"
	reason string
	writer string // single_writer: the only function allowed to store to the field
}

type StructAnn struct {
	pkg      string // relative package path
	name     string
	key      string // pkg.name
	fields   map[string]*fieldAnn
	nullable map[string]bool
	locks    map[string]int    // lock field -> level
	conds    map[string]string // cond field -> lock path
	invs     []specLine
	minvs    []specLine // method_invariant: assumed on entry and asserted at every return of every method of the type
	elemInv  map[string][]specLine // channel field -> invariant over `elem`
	poolInv  map[string][]specLine // *sync.Pool field -> invariant over `elem` (an interface value) and the struct's fields
	openChan map[string]bool       // channel fields that are never closed
	closeTok map[string]string     // channel field -> "" (swap discipline) or flag field name
	line     int
	file     string
}

type specLine struct {
	text string
	file string
	line int
	tag  string // optional label
}

type FuncContract struct {
	pkg       string
	key       string // "(*socket).SendMsg" or "NewMessage"
	requires  []specLine
	assumes   []specLine // entry assumptions NOT checked at call sites (listed as assumptions)
	trusts    []specLine // postconditions assumed at call sites and NOT checked against the body (listed as assumptions)
	ensures   []specLine
	holds     []string // lock paths held on entry and exit
	acquires  []string
	releases  []string
	nullable  map[string]bool
	modifies  []string
	hasMods   bool
	loopInv   map[int][]specLine
	loopMod   map[int][]string
	loopComplete map[int]bool
	loopOver  map[int][]specLine // loop N over E: the loop ranges over exactly that collection
	loopEnsures map[int][]specLine
	at        map[string][]specLine // site label -> assertions
	atAssume  map[string][]specLine
	atBefore  map[string][]specLine
	atSet     map[string][]specLine // site -> `name = expr` updates of user ghost variables
	takes     map[string]bool
	condTakes map[string]bool
	acceptsShared map[string]bool
	mayClose  []mayCloseClause
	ownPrimitive bool
	freshOnly bool
	borrows   map[string]bool
	retNullable bool
	maypanic  bool
	pure      bool
	trusted   bool
	ghost     []specLine
	nolockbalance bool
	used      bool
	file      string
	line      int
	exitHeld  []string
	private   bool // object under construction: guard checks exempt
	inline    bool
	results   []string
}

type guardedField struct {
	hv     string
	own    bool // field of the struct that embeds the lock (per-object havoc)
	field  string
	owner  string
	ownerT types.Type
}

type Annotations struct {
	structs map[string]*StructAnn   // key: pkg.Type
	funcs   map[string]*FuncContract // key: pkg:(recv).name
	ifaces  map[string]*FuncContract // key: pkg.Iface.Method
	byLock  map[string][]guardedField
	errs    []string
	lemmas  []specLine
	immutableHV map[string]bool
	singleWriterHV map[string]string // heap var -> only function that writes it
}

func newAnnotations() *Annotations {
	return &Annotations{structs: map[string]*StructAnn{}, funcs: map[string]*FuncContract{}, ifaces: map[string]*FuncContract{}, byLock: map[string][]guardedField{}, immutableHV: map[string]bool{}, singleWriterHV: map[string]string{}}
}

func (a *Annotations) isNullable(typeKey, field string) bool {
	if s, ok := a.structs[typeKey]; ok {
		return s.nullable[field]
	}
	return false
}

func (a *Annotations) resultNullable(t *fnTrans, c *ssa.Call) bool {
	callee := t.g.staticCallee(c.Common())
	if callee == nil {
		if c.Common().IsInvoke() {
			if fc := t.g.ifaceContract(c.Common()); fc != nil {
				return fc.retNullable
			}
		}
		return false
	}
	if fc := t.g.contractOf(callee); fc != nil {
		return fc.retNullable
	}
	return false
}

func (g *Gen) contractOf(f *ssa.Function) *FuncContract {
	k := g.contractKey(f)
	fc := g.ann.funcs[k]
	if fc != nil {
		fc.used = true
	}
	return fc
}

// contractKey: "<relpkg>:(*T).m", "<relpkg>:f", closures "<relpkg>:(*T).m$1"
func (g *Gen) contractKey(f *ssa.Function) string {
	root := f
	for root.Parent() != nil {
		root = root.Parent()
	}
	pkg := ""
	if root.Pkg != nil {
		pkg = g.relPkg(root.Pkg.Pkg.Path())
	} else if o := root.Object(); o != nil && o.Pkg() != nil {
		pkg = g.relPkg(o.Pkg().Path())
	}
	name := f.Name() // includes $n for closures
	if recv := root.Signature.Recv(); recv != nil {
		rt := recv.Type()
		star := ""
		if p, ok := rt.(*types.Pointer); ok {
			rt = p.Elem()
			star = "*"
		}
		tn := ""
		if n, ok := rt.(*types.Named); ok {
			tn = n.Obj().Name()
		}
		return fmt.Sprintf("%s:(%s%s).%s", pkg, star, tn, name)
	}
	return pkg + ":" + name
}

func (g *Gen) ifaceContract(cc *ssa.CallCommon) *FuncContract {
	n, ok := types.Unalias(cc.Value.Type()).(*types.Named)
	if !ok {
		return nil
	}
	k := g.typeKey(n) + "." + cc.Method.Name()
	fc := g.ann.ifaces[k]
	if fc != nil {
		fc.used = true
	}
	return fc
}

func (a *Annotations) guardedVars(lockKey string) []string {
	var out []string
	for _, gf := range a.byLock[lockKey] {
		out = append(out, gf.hv)
	}
	return out
}

func (a *Annotations) guardedFields(lockKey string) []guardedField { return a.byLock[lockKey] }

func (a *Annotations) sortOfGuarded(t *fnTrans, gf guardedField) string {
	if gf.ownerT == nil {
		return ""
	}
	st, ok := gf.ownerT.Underlying().(*types.Struct)
	if !ok {
		return ""
	}
	for i := 0; i < st.NumFields(); i++ {
		if st.Field(i).Name() == gf.field {
			if _, isSt := st.Field(i).Type().Underlying().(*types.Struct); isSt {
				return ""
			}
			return "(Array Int " + t.sortOf(st.Field(i).Type()) + ")"
		}
	}
	return ""
}

// ---- parsing ---------------------------------------------------------------------

func (g *Gen) loadAnnotations(root string) error {
	a := g.ann
	return filepath.Walk(root, func(path string, info os.FileInfo, err error) error {
		if err != nil {
			return err
		}
		if info.IsDir() {
			if strings.HasPrefix(info.Name(), ".") && path != root {
				return filepath.SkipDir
			}
			return nil
		}
		if info.Name() != "contracts_verif.go" {
			return nil
		}
		rel, _ := filepath.Rel(root, filepath.Dir(path))
		if rel == "." {
			rel = "mangos"
		}
		return a.parseFile(path, filepath.ToSlash(rel))
	})
}

func (a *Annotations) parseFile(path, pkg string) error {
	f, err := os.Open(path)
	if err != nil {
		return err
	}
	defer f.Close()
	sc := bufio.NewScanner(f)
	sc.Buffer(make([]byte, 1<<20), 1<<20)
	var cs *StructAnn
	var cf *FuncContract
	ln := 0
	relfile := strings.TrimPrefix(path, repoDir+"/")
	for sc.Scan() {
		ln++
		line := strings.TrimSpace(sc.Text())
		if !strings.HasPrefix(line, "//@") {
			continue
		}
		line = strings.TrimSpace(line[3:])
		if i := strings.Index(line, " //"); i >= 0 {
			line = strings.TrimSpace(line[:i])
		}
		if line == "" {
			continue
		}
		word, rest := splitWord(line)
		sl := specLine{text: rest, file: relfile, line: ln}
		switch word {
		case "struct":
			cs = &StructAnn{pkg: pkg, name: rest, key: pkg + "." + rest, fields: map[string]*fieldAnn{}, nullable: map[string]bool{}, locks: map[string]int{}, conds: map[string]string{}, elemInv: map[string][]specLine{}, poolInv: map[string][]specLine{}, openChan: map[string]bool{}, file: relfile, line: ln}
			a.structs[cs.key] = cs
			cf = nil
		case "func":
			if old, ok := a.funcs[pkg+":"+rest]; ok {
				cf = old // several blocks for one function are merged
			} else {
				cf = newFuncContract(pkg, rest, relfile, ln)
				a.funcs[pkg+":"+rest] = cf
			}
			cs = nil
		case "interface":
			if old, ok := a.ifaces[pkg+"."+rest]; ok {
				cf = old
			} else {
				cf = newFuncContract(pkg, rest, relfile, ln)
				a.ifaces[pkg+"."+rest] = cf
			}
			cs = nil
		case "lemma":
			a.lemmas = append(a.lemmas, sl)
		default:
			switch {
			case cs != nil:
				if err := a.structClause(cs, word, rest, sl); err != nil {
					a.errs = append(a.errs, fmt.Sprintf("%s:%d: %v", relfile, ln, err))
				}
			case cf != nil:
				if err := a.funcClause(cf, word, rest, sl); err != nil {
					a.errs = append(a.errs, fmt.Sprintf("%s:%d: %v", relfile, ln, err))
				}
			default:
				a.errs = append(a.errs, fmt.Sprintf("%s:%d: clause outside struct/func", relfile, ln))
			}
		}
	}
	return sc.Err()
}

func newFuncContract(pkg, key, file string, line int) *FuncContract {
	return &FuncContract{pkg: pkg, key: key, nullable: map[string]bool{}, loopInv: map[int][]specLine{}, loopMod: map[int][]string{}, loopComplete: map[int]bool{}, at: map[string][]specLine{}, atAssume: map[string][]specLine{}, atBefore: map[string][]specLine{}, atSet: map[string][]specLine{}, takes: map[string]bool{}, condTakes: map[string]bool{}, acceptsShared: map[string]bool{}, borrows: map[string]bool{}, file: file, line: line}
}

func splitWord(s string) (string, string) {
	s = strings.TrimSpace(s)
	i := strings.IndexAny(s, " \t")
	if i < 0 {
		return s, ""
	}
	return s[:i], strings.TrimSpace(s[i+1:])
}

func (a *Annotations) structClause(cs *StructAnn, word, rest string, sl specLine) error {
	switch strings.TrimSuffix(word, ":") {
	case "lock":
		// lock Mutex level 20
		parts := strings.Fields(rest)
		lvl := 0
		if len(parts) >= 3 && parts[1] == "level" {
			fmt.Sscanf(parts[2], "%d", &lvl)
		}
		cs.locks[parts[0]] = lvl
	case "cond":
		parts := strings.Fields(rest)
		if len(parts) != 3 || parts[1] != "uses" {
			return fmt.Errorf("cond <field> uses <lockpath>")
		}
		cs.conds[parts[0]] = parts[2]
	case "guarded_by":
		i := strings.Index(rest, ":")
		if i < 0 {
			return fmt.Errorf("guarded_by <lock>: fields")
		}
		lock := strings.TrimSpace(rest[:i])
		for _, f := range strings.Fields(rest[i+1:]) {
			cs.fields[f] = &fieldAnn{kind: "guarded", lock: lock}
		}
	case "pointee_guarded_by":
		// pointee_guarded_by <lock>: fields -- the field is a pointer to a struct the contracts do not
		// describe (a library type); what it points to is accessed only with the lock held. Stored
		// under the name "*field".
		i := strings.Index(rest, ":")
		if i < 0 {
			return fmt.Errorf("pointee_guarded_by <lock>: fields")
		}
		lock := strings.TrimSpace(rest[:i])
		for _, f := range strings.Fields(rest[i+1:]) {
			cs.fields["*"+f] = &fieldAnn{kind: "guarded", lock: lock}
		}
	case "pointee_immutable":
		// pointee_immutable: fields -- what the pointer field points to (a library struct) is never
		// written once the object is shared
		for _, f := range strings.Fields(strings.TrimPrefix(rest, ":")) {
			cs.fields["*"+f] = &fieldAnn{kind: "immutable"}
		}
	case "single_writer":
		// single_writer <func> <lockpath>: fields   -- guarded by the lock, written only by <func>
		i := strings.Index(rest, ":")
		hdr := strings.Fields(rest[:max(i, 0)])
		if i < 0 || len(hdr) != 2 {
			return fmt.Errorf("single_writer <func> <lock>: fields")
		}
		for _, f := range strings.Fields(rest[i+1:]) {
			cs.fields[f] = &fieldAnn{kind: "guarded", lock: hdr[1], writer: hdr[0]}
		}
	case "immutable", "atomic", "owner":
		for _, f := range strings.Fields(rest) {
			cs.fields[f] = &fieldAnn{kind: strings.TrimSuffix(word, ":")}
		}
	case "racy":
		reason := ""
		if i := strings.Index(rest, " because "); i >= 0 {
			reason = rest[i+9:]
			rest = rest[:i]
		}
		for _, f := range strings.Fields(rest) {
			cs.fields[f] = &fieldAnn{kind: "racy", reason: reason}
		}
	case "nullable":
		for _, f := range strings.Fields(rest) {
			cs.nullable[f] = true
		}
	case "invariant":
		cs.invs = append(cs.invs, sl)
	case "method_invariant":
		cs.minvs = append(cs.minvs, sl)
	case "never_closed":
		for _, f := range strings.Fields(rest) {
			cs.openChan[f] = true
		}
	case "close_token":
		// close_token F G ...        (swap discipline)
		// close_token F when flag    (flag discipline)
		if cs.closeTok == nil {
			cs.closeTok = map[string]string{}
		}
		fs := strings.Fields(rest)
		if len(fs) == 3 && fs[1] == "when" {
			cs.closeTok[fs[0]] = fs[2]
		} else {
			for _, f := range fs {
				if f == "when" {
					return fmt.Errorf("close_token F when flag")
				}
				cs.closeTok[f] = ""
			}
		}
	case "elem_invariant":
		// elem_invariant <chanfield>[,<chanfield>...]: <expr over elem>
		i := strings.Index(rest, ":")
		if i < 0 {
			return fmt.Errorf("elem_invariant <fields>: <expr>")
		}
		sl.text = strings.TrimSpace(rest[i+1:])
		for _, f := range strings.Split(rest[:i], ",") {
			f = strings.TrimSpace(f)
			cs.elemInv[f] = append(cs.elemInv[f], sl)
		}
	case "pool_elem":
		// pool_elem <poolfield>: <expr over elem and the struct's fields>   (what the pool holds)
		i := strings.Index(rest, ":")
		if i < 0 {
			return fmt.Errorf("pool_elem <field>: <expr>")
		}
		sl.text = strings.TrimSpace(rest[i+1:])
		f := strings.TrimSpace(rest[:i])
		cs.poolInv[f] = append(cs.poolInv[f], sl)
	default:
		return fmt.Errorf("unknown struct clause %q", word)
	}
	return nil
}

func (a *Annotations) funcClause(cf *FuncContract, word, rest string, sl specLine) error {
	switch strings.TrimSuffix(word, ":") {
	case "requires":
		cf.requires = append(cf.requires, sl)
	case "assumes":
		cf.assumes = append(cf.assumes, sl)
	case "trusts":
		cf.trusts = append(cf.trusts, sl)
	case "ensures":
		cf.ensures = append(cf.ensures, sl)
	case "holds":
		cf.holds = append(cf.holds, strings.Fields(rest)...)
	case "acquires":
		cf.acquires = append(cf.acquires, strings.Fields(rest)...)
	case "releases":
		cf.releases = append(cf.releases, strings.Fields(rest)...)
	case "nullable":
		for _, p := range strings.Fields(rest) {
			if p == "result" {
				cf.retNullable = true
			} else {
				cf.nullable[p] = true
			}
		}
	case "modifies":
		cf.hasMods = true
		cf.modifies = append(cf.modifies, strings.Fields(rest)...)
	case "loop":
		// loop N invariant E | loop N modifies ...
		nword, r2 := splitWord(rest)
		var n int
		fmt.Sscanf(nword, "%d", &n)
		kw, r3 := splitWord(r2)
		sl.text = r3
		switch kw {
		case "invariant":
			cf.loopInv[n] = append(cf.loopInv[n], sl)
		case "modifies":
			cf.loopMod[n] = append(cf.loopMod[n], strings.Fields(r3)...)
		case "complete":
			cf.loopComplete[n] = true
		case "over":
			if cf.loopOver == nil {
				cf.loopOver = map[int][]specLine{}
			}
			cf.loopOver[n] = append(cf.loopOver[n], sl)
		case "ensures":
			// loop N ensures E: holds at the end of every iteration (checked at each back edge)
			if cf.loopEnsures == nil {
				cf.loopEnsures = map[int][]specLine{}
			}
			cf.loopEnsures[n] = append(cf.loopEnsures[n], sl)
		default:
			return fmt.Errorf("loop clause %q", kw)
		}
	case "at":
		// at <site> assert E | at <site> assume E
		site, r2 := splitWord(rest)
		kw, r3 := splitWord(r2)
		sl.text = r3
		switch kw {
		case "assert":
			cf.at[site] = append(cf.at[site], sl)
		case "assume":
			cf.atAssume[site] = append(cf.atAssume[site], sl)
		case "set":
			cf.atSet[site] = append(cf.atSet[site], sl)
		default:
			return fmt.Errorf("at clause %q", kw)
		}
	case "before":
		site, r2 := splitWord(rest)
		kw, r3 := splitWord(r2)
		sl.text = r3
		if kw != "assert" {
			return fmt.Errorf("before <site> assert E")
		}
		cf.atBefore[site] = append(cf.atBefore[site], sl)
	case "nolockbalance":
		cf.nolockbalance = true
	case "takes":
		for _, p := range strings.Fields(rest) {
			cf.takes[p] = true
		}
	case "takes_on_success":
		for _, p := range strings.Fields(rest) {
			cf.condTakes[p] = true
		}
	case "borrows":
		for _, p := range strings.Fields(rest) {
			cf.borrows[p] = true
		}
	case "may_close":
		// may_close <expr> once|caller
		i := strings.LastIndex(rest, " ")
		if i < 0 || (rest[i+1:] != "once" && rest[i+1:] != "caller") {
			return fmt.Errorf("may_close <expr> once|caller")
		}
		sl.text = strings.TrimSpace(rest[:i])
		cf.mayClose = append(cf.mayClose, mayCloseClause{sl: sl, why: rest[i+1:]})
	case "accepts_shared":
		// the function promises to cope with a message that is shared (Clone'd) by its caller
		for _, p := range strings.Fields(rest) {
			cf.acceptsShared[p] = true
		}
	case "own_primitive":
		cf.ownPrimitive = true
	case "fresh_only":
		cf.freshOnly = true
	case "maypanic":
		cf.maypanic = true
	case "pure":
		cf.pure = true
	case "trusted":
		cf.trusted = true
	case "private":
		cf.private = true
	case "inline":
		cf.inline = true
	case "results":
		cf.results = strings.Fields(rest)
	case "ghost":
		cf.ghost = append(cf.ghost, sl)
	default:
		return fmt.Errorf("unknown func clause %q", word)
	}
	return nil
}

// resolve ties struct annotations to go/types and builds the lock -> guarded fields index.
func (g *Gen) resolveAnnotations() {
	a := g.ann
	for _, sa := range a.structs {
		T := g.lookupType(sa.pkg, sa.name)
		if T == nil {
			a.errs = append(a.errs, fmt.Sprintf("%s:%d: struct %s not found", sa.file, sa.line, sa.key))
			continue
		}
		st, ok := T.Underlying().(*types.Struct)
		if !ok {
			a.errs = append(a.errs, fmt.Sprintf("%s:%d: %s is not a struct", sa.file, sa.line, sa.key))
			continue
		}
		fieldNames := map[string]bool{}
		for i := 0; i < st.NumFields(); i++ {
			fieldNames[st.Field(i).Name()] = true
		}
		for f, fa := range sa.fields {
			if strings.HasPrefix(f, "*") {
				// pointee_guarded_by: the field must exist and be a pointer; what it points to is a library
				// struct, so there are no heap variables of ours to havoc at Lock
				if !fieldNames[f[1:]] {
					a.errs = append(a.errs, fmt.Sprintf("%s:%d: struct %s has no field %s", sa.file, sa.line, sa.key, f[1:]))
				} else if _, isPtr := g.fieldType(st, f[1:]).Underlying().(*types.Pointer); !isPtr {
					a.errs = append(a.errs, fmt.Sprintf("%s:%d: struct %s: field %s is not a pointer (pointee_guarded_by)", sa.file, sa.line, sa.key, f[1:]))
				} else if fa.kind != "guarded" {
					// pointee_immutable: nothing to resolve
				} else if k, _ := g.resolveLockPath(T, fa.lock); k == "" {
					a.errs = append(a.errs, fmt.Sprintf("%s:%d: struct %s: cannot resolve lock path %s", sa.file, sa.line, sa.key, fa.lock))
				}
				continue
			}
			if !fieldNames[f] {
				a.errs = append(a.errs, fmt.Sprintf("%s:%d: struct %s has no field %s", sa.file, sa.line, sa.key, f))
				continue
			}
			if fa.kind == "immutable" {
				if _, isSt := g.fieldType(st, f).Underlying().(*types.Struct); !isSt {
					a.immutableHV["F:"+g.typeKey(T)+"."+f] = true
				}
			}
			if fa.kind != "guarded" {
				continue
			}
			if fa.writer != "" {
				a.singleWriterHV["F:"+g.typeKey(T)+"."+f] = fa.writer
			}
			lockKey, own := g.resolveLockPath(T, fa.lock)
			if lockKey == "" {
				a.errs = append(a.errs, fmt.Sprintf("%s:%d: struct %s: cannot resolve lock path %s", sa.file, sa.line, sa.key, fa.lock))
				continue
			}
			a.byLock[lockKey] = append(a.byLock[lockKey], guardedField{hv: "F:" + g.typeKey(T) + "." + f, own: own, field: f, owner: g.typeKey(T), ownerT: T})
		}
	}
}

func (g *Gen) lookupType(pkg, name string) types.Type {
	for _, p := range g.spkgs {
		if p == nil || g.relPkg(p.Pkg.Path()) != pkg {
			continue
		}
		if m, ok := p.Members[name]; ok {
			if tn, ok := m.(*ssa.Type); ok {
				return tn.Type()
			}
		}
	}
	return nil
}

// resolveLockPath: "Mutex" | "s.Mutex" | "global:listeners.mx" -> key "pkg.T.field" of the mutex field
func (g *Gen) resolveLockPath(T types.Type, path string) (key string, own bool) {
	parts := strings.Split(path, ".")
	cur := T
	for i, p := range parts {
		st, ok := deref(cur).Underlying().(*types.Struct)
		if !ok {
			return "", false
		}
		found := false
		for j := 0; j < st.NumFields(); j++ {
			if st.Field(j).Name() == p {
				if i == len(parts)-1 {
					return g.typeKey(deref(cur)) + "." + p, len(parts) == 1
				}
				cur = st.Field(j).Type()
				found = true
				break
			}
		}
		if !found {
			return "", false
		}
	}
	return "", false
}

func deref(t types.Type) types.Type {
	if p, ok := t.Underlying().(*types.Pointer); ok {
		return types.Unalias(p.Elem())
	}
	return types.Unalias(t)
}

func (g *Gen) fieldType(st *types.Struct, name string) types.Type {
	for i := 0; i < st.NumFields(); i++ {
		if st.Field(i).Name() == name {
			return st.Field(i).Type()
		}
	}
	return types.Typ[types.Int]
}

// declaresGhost: the contract introduces a ghost of that name (`at site set x = e` or `ghost x = e at site`).
func (fc *FuncContract) declaresGhost(name string) bool {
	for _, sls := range fc.atSet {
		for _, sl := range sls {
			if i := strings.Index(sl.text, "="); i > 0 {
				if strings.TrimSuffix(strings.TrimSpace(sl.text[:i]), ":bool") == name {
					return true
				}
			}
		}
	}
	for _, gl := range fc.ghost {
		if n, _, _, ok := splitGhost(gl.text); ok && n == name {
			return true
		}
	}
	return false
}

type missingFunc struct {
	fnKey string
	file  string
	line  int
}

// missingContractFuncs: function contracts that match no function of the module.
func (g *Gen) missingContractFuncs() []missingFunc {
	have := map[string]bool{}
	for _, f := range g.allFuncs {
		have[g.contractKey(f)] = true
	}
	var out []missingFunc
	for k, fc := range g.ann.funcs {
		if have[k] {
			continue
		}
		i := strings.Index(k, ":")
		if i < 0 {
			continue
		}
		pkg, rest := k[:i], k[i+1:]
		if pkg == "" {
			pkg = "mangos"
		}
		fk := pkg + "." + rest
		if strings.HasPrefix(rest, "(*") {
			fk = "(*" + pkg + "." + rest[2:]
		} else if strings.HasPrefix(rest, "(") {
			fk = "(" + pkg + "." + rest[1:]
		}
		out = append(out, missingFunc{fk, fc.file, fc.line})
	}
	sort.Slice(out, func(i, j int) bool { return out[i].fnKey < out[j].fnKey })
	return out
}

// ifaceKeyOf: the key under which `interface I.M` contracts are stored, for a value of (alias of) named interface type ty.
func (g *Gen) ifaceKeyOf(ty types.Type, method string) string {
	n, ok := types.Unalias(ty).(*types.Named)
	if !ok {
		return ""
	}
	return g.typeKey(n) + "." + method
}
