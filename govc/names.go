package main

// Rename resilience.  Contracts live in separate comment-only files and name receivers,
// parameters and locals of the functions they describe.  A harmless rename of such a variable
// must not turn into an alarm, so /verif/spec/names.json records, for every function of the
// tree the contracts were written against, its declared variables in source order with their
// types.  When the current tree declares, at the same position among the variables of the same
// type, a variable with a name the snapshot does not know -- and the old name is gone -- the
// contract's name is read as the new one (and the fact is printed).  Anything else (different
// count, different types) is not treated as a rename.

import (
	"encoding/json"
	"go/ast"
	"go/types"
	"os"
	"sort"

	"golang.org/x/tools/go/ssa"
)

type declVar struct {
	Name string `json:"n"`
	Type string `json:"t"`
}

const namesPath = "/verif/spec/names.json"

// declaredVars: receiver, parameters, results and locals of fn in source order
// (nested function literals excluded: they are functions of their own).
func (g *Gen) declaredVars(fn *ssa.Function) []declVar {
	syn := fn.Syntax()
	if syn == nil || fn.Pkg == nil && fn.Parent() == nil {
		return nil
	}
	root := fn
	for root.Parent() != nil {
		root = root.Parent()
	}
	if root.Pkg == nil {
		return nil
	}
	info := g.infoOf[root.Pkg.Pkg]
	if info == nil {
		return nil
	}
	type pv struct {
		pos int
		v   declVar
	}
	var out []pv
	var body ast.Node = syn
	ast.Inspect(body, func(n ast.Node) bool {
		if fl, ok := n.(*ast.FuncLit); ok && ast.Node(fl) != syn {
			return false
		}
		id, ok := n.(*ast.Ident)
		if !ok {
			return true
		}
		obj, ok := info.Defs[id].(*types.Var)
		if !ok || obj == nil || obj.IsField() || id.Name == "_" {
			return true
		}
		out = append(out, pv{int(id.Pos()), declVar{id.Name, types.TypeString(obj.Type(), func(p *types.Package) string { return p.Path() })}})
		return true
	})
	sort.Slice(out, func(i, j int) bool { return out[i].pos < out[j].pos })
	var vs []declVar
	for _, o := range out {
		vs = append(vs, o.v)
	}
	return vs
}

func (g *Gen) snapshotNames() map[string][]declVar {
	m := map[string][]declVar{}
	for _, fn := range g.allFuncs {
		if !g.inScope(fn) {
			continue
		}
		if vs := g.declaredVars(fn); len(vs) > 0 {
			m[g.fnKey(fn)] = vs
		}
	}
	return m
}

func cmdSnapshotNames(args []string) {
	dir := "/repo"
	if len(args) > 0 {
		dir = args[0]
	}
	repoDir = dir
	g, err := loadGen(dir)
	if err != nil {
		println("LOAD-ERROR:", err.Error())
		os.Exit(2)
	}
	b, _ := json.MarshalIndent(g.snapshotNames(), "", " ")
	os.WriteFile(namesPath, b, 0o644)
	fb, _ := json.MarshalIndent(g.snapshotFuncs(), "", " ")
	os.WriteFile(funcsPath, fb, 0o644)
	sb, _ := json.MarshalIndent(g.snapshotFields(), "", " ")
	os.WriteFile(fieldsPath, sb, 0o644)
}

// computeAliases fills g.alias: function key -> (name used by the contracts -> current name).
func (g *Gen) computeAliases() {
	g.alias = map[string]map[string]string{}
	b, err := os.ReadFile(namesPath)
	if err != nil {
		return
	}
	var snap map[string][]declVar
	if json.Unmarshal(b, &snap) != nil {
		return
	}
	for _, fn := range g.allFuncs {
		if !g.inScope(fn) {
			continue
		}
		key := g.fnKey(fn)
		old, ok := snap[key]
		if !ok {
			continue
		}
		cur := g.declaredVars(fn)
		byType := func(vs []declVar) map[string][]string {
			m := map[string][]string{}
			for _, v := range vs {
				m[v.Type] = append(m[v.Type], v.Name)
			}
			return m
		}
		ot, ct := byType(old), byType(cur)
		curNames, oldNames := map[string]bool{}, map[string]bool{}
		for _, v := range cur {
			curNames[v.Name] = true
		}
		for _, v := range old {
			oldNames[v.Name] = true
		}
		for ty, os_ := range ot {
			cs := ct[ty]
			if len(cs) != len(os_) {
				continue
			}
			for i := range os_ {
				if os_[i] != cs[i] && !curNames[os_[i]] && !oldNames[cs[i]] {
					if g.alias[key] == nil {
						g.alias[key] = map[string]string{}
					}
					g.alias[key][os_[i]] = cs[i]
				}
			}
		}
	}
	// closures see their parents' renames (free variables)
	for _, fn := range g.allFuncs {
		for p := fn.Parent(); p != nil; p = p.Parent() {
			if pa := g.alias[g.fnKey(p)]; pa != nil {
				k := g.fnKey(fn)
				if g.alias[k] == nil {
					g.alias[k] = map[string]string{}
				}
				for o, n := range pa {
					if _, has := g.alias[k][o]; !has {
						g.alias[k][o] = n
					}
				}
			}
		}
	}
}

// curName: the current name of the variable the contracts of fn call `name`.
func (g *Gen) curName(fnKey, name string) string {
	if a, ok := g.alias[fnKey][name]; ok {
		return a
	}
	return name
}

// contractName: the name the contracts of fn use for the variable currently called `name`.
func (g *Gen) contractName(fnKey, name string) string {
	for o, n := range g.alias[fnKey] {
		if n == name {
			return o
		}
	}
	return name
}
