package main

// Ghost model of a byte stream read through an io.Reader / net.Conn (C01, C15, C16):
//
//   rstream(r) : Array Int Int   the (unknown, arbitrary) sequence of bytes the peer sends
//   ghost:rpos : Array Iface Int how many of them this side has consumed
//
// Trusted library contracts (DESIGN 7):
//   io.ReadFull(r, buf)  ok  => buf[i] = rstream(r)[pos+i] for i < len(buf), pos += len(buf)
//   binary.Read(r, BigEndian, &x) ok => x = big-endian decoding of the next size(x) bytes, pos += size(x)
//   r.Read(buf)          => n in 0..len(buf) arbitrary, buf[i] = rstream(r)[pos+i] for i < n, pos += n
//   binary.Write(w, BigEndian, &x)   writes the fields of x big-endian in order (stated, used by site assertions)
// Errors returned by library calls are never of mangos' own error type.

import (
	"fmt"
	"go/types"
	"strings"

	"golang.org/x/tools/go/ssa"
)

const rposHV = "ghost:rpos"

func (t *fnTrans) rstreamOf(r string) string {
	fn := t.c.declareFun("rstream", []string{"Iface"}, "(Array Int Int)")
	return "(" + fn + " " + r + ")"
}

func (t *fnTrans) rposGet(st *State, r string) string {
	t.h.reg(rposHV, "(Array Iface Int)")
	return sel(t.h.get(st, rposHV), r)
}

func (t *fnTrans) rposSet(r, v string) {
	t.h.reg(rposHV, "(Array Iface Int)")
	t.h.set(t.cur, rposHV, store(t.h.get(t.cur, rposHV), r, v))
}

// libErrorFact: an error produced by a library is not one of mangos' error constants.
func (t *fnTrans) libErrorFact(e string) {
	if T := t.g.namedType(t.g.mod+"/errors", "err"); T != nil {
		t.assume(fmt.Sprintf("(not (= (itag %s) %d))", e, t.g.tagOf(T)))
	}
}

func (t *fnTrans) streamBytesRange(stream, pos string, n int) {
	for i := 0; i < n; i++ {
		e := sel(stream, fmt.Sprintf("(+ %s %d)", pos, i))
		t.assume("(and (<= 0 " + e + ") (<= " + e + " 255))")
	}
}

// binary.Read(r, order, data)
func (t *fnTrans) mBinaryRead(in ssa.Instruction, cc *ssa.CallCommon, res ssa.Value) bool {
	// waits for the peer's bytes: a silent peer must not be able to pin a lock
	t.blockCheck(in.Pos(), "read:encoding/binary.Read")
	r := t.val(cc.Args[0])
	errv := t.freshResults(res, nameOf(res, "err"))[0]
	t.libErrorFact(errv)
	ok := "(= (itag " + errv + ") 0)"
	mi, isMI := cc.Args[2].(*ssa.MakeInterface)
	if !isMI {
		t.abstract("binary.Read into non-pointer")
		t.havocVars(true, nil)
		return true
	}
	pt, isPtr := mi.X.Type().Underlying().(*types.Pointer)
	if !isPtr {
		t.abstract("binary.Read into non-pointer")
		return true
	}
	stream := t.rstreamOf(r)
	pos := t.c.define(t.c.fresh("rpos"), "Int", t.rposGet(t.cur, r))
	t.assume("(<= 0 " + pos + ")")
	l := t.locOf(mi.X)
	switch u := pt.Elem().Underlying().(type) {
	case *types.Basic:
		bits, uns, isInt := intBits(pt.Elem())
		if !isInt {
			t.abstract("binary.Read of non-integer")
			t.havocLoc(l)
			return true
		}
		n := bits / 8
		t.streamBytesRange(stream, pos, n)
		raw := map[int]string{1: sel(stream, pos), 2: "(be16 " + stream + " " + pos + ")", 4: "(be32 " + stream + " " + pos + ")", 8: "(be64 " + stream + " " + pos + ")"}[n]
		val := raw
		if !uns {
			h := pow2(bits - 1)
			val = "(ite (>= " + raw + " " + h + ") (- " + raw + " " + pow2(bits) + ") " + raw + ")"
		}
		garbage := t.freshOf("rd", pt.Elem())
		t.storeLoc(l, ite(ok, val, garbage))
		adv := t.c.declare(t.c.fresh("adv"), "Int")
		t.assume(fmt.Sprintf("(and (<= 0 %s) (<= %s %d))", adv, adv, n))
		t.rposSet(r, ite(ok, fmt.Sprintf("(+ %s %d)", pos, n), "(+ "+pos+" "+adv+")"))
		_ = u
	case *types.Struct:
		off := 0
		for i := 0; i < u.NumFields(); i++ {
			ft := u.Field(i).Type()
			bits, uns, isInt := intBits(ft)
			if !isInt || !uns {
				t.abstract("binary.Read of struct with non-unsigned field")
				t.havocLoc(l)
				return true
			}
			n := bits / 8
			p2 := fmt.Sprintf("(+ %s %d)", pos, off)
			t.streamBytesRange(stream, p2, n)
			raw := map[int]string{1: sel(stream, p2), 2: "(be16 " + stream + " " + p2 + ")", 4: "(be32 " + stream + " " + p2 + ")", 8: "(be64 " + stream + " " + p2 + ")"}[n]
			hv, _, _ := t.fieldHV(pt.Elem(), i)
			garbage := t.freshOf("rd", ft)
			t.h.set(t.cur, hv, store(t.h.get(t.cur, hv), l.base, ite(ok, raw, garbage)))
			off += n
		}
		adv := t.c.declare(t.c.fresh("adv"), "Int")
		t.assume(fmt.Sprintf("(and (<= 0 %s) (<= %s %d))", adv, adv, off))
		t.rposSet(r, ite(ok, fmt.Sprintf("(+ %s %d)", pos, off), "(+ "+pos+" "+adv+")"))
	default:
		t.abstract("binary.Read of unsupported type")
		t.havocLoc(l)
	}
	t.event("read", "0", "")
	return true
}

// binary.Write(w, order, data): no state of ours changes; the error is a library error.
func (t *fnTrans) mBinaryWrite(in ssa.Instruction, cc *ssa.CallCommon, res ssa.Value) bool {
	errv := t.freshResults(res, nameOf(res, "err"))[0]
	t.libErrorFact(errv)
	return true
}

// io.ReadFull(r, buf)
func (t *fnTrans) mReadFull(in ssa.Instruction, cc *ssa.CallCommon, res ssa.Value) bool {
	t.blockCheck(in.Pos(), "read:io.ReadFull")
	r := t.val(cc.Args[0])
	buf := t.val(cc.Args[1])
	rs := t.freshResults(res, nameOf(res, "rf"))
	n, errv := rs[0], rs[1]
	t.libErrorFact(errv)
	ok := "(= (itag " + errv + ") 0)"
	stream := t.rstreamOf(r)
	pos := t.c.define(t.c.fresh("rpos"), "Int", t.rposGet(t.cur, r))
	t.assume("(<= 0 " + pos + ")")
	t.h.reg("E:Int", "(Array Int (Array Int Int))")
	e := t.h.get(t.cur, "E:Int")
	R := t.c.declare(t.c.fresh("rf.R"), "(Array Int Int)")
	j := q(t.c.fresh("j"))
	old := sel(e, "(sl_arr "+buf+")")
	// constants for use inside patterns (macro-expanded terms may contain ite, which patterns reject)
	bo := t.c.declare(t.c.fresh("rf.off"), "Int")
	t.assume("(= " + bo + " (sl_off " + buf + "))")
	// bytes outside the buffer keep their value; inside: from the stream on success, arbitrary bytes otherwise
	t.assume(fmt.Sprintf("(forall ((%s Int)) (! (=> (not (and (<= (sl_off %s) %s) (< %s (+ (sl_off %s) (sl_len %s))))) (= (select %s %s) (select %s %s))) :pattern ((select %s %s))))", j, buf, j, j, buf, buf, R, j, old, j, R, j))
	t.assume(implies(ok, fmt.Sprintf("(forall ((%s Int)) (! (=> (and (<= 0 %s) (< %s (sl_len %s))) (= (select %s (ix %s %s)) (select %s (+ %s %s)))) :pattern ((select %s (ix %s %s)))))", j, j, j, buf, R, bo, j, stream, pos, j, R, bo, j)))
	t.assume(fmt.Sprintf("(forall ((%s Int)) (! (and (<= 0 (select %s %s)) (<= (select %s %s) 255)) :pattern ((select %s %s))))", j, stream, j, stream, j, stream, j))
	t.h.set(t.cur, "E:Int", store(e, "(sl_arr "+buf+")", R))
	t.assume(implies(ok, "(= "+n+" (sl_len "+buf+"))"))
	adv := t.c.declare(t.c.fresh("adv"), "Int")
	t.assume(fmt.Sprintf("(and (<= 0 %s) (<= %s (sl_len %s)))", adv, adv, buf))
	t.rposSet(r, ite(ok, "(+ "+pos+" (sl_len "+buf+"))", "(+ "+pos+" "+adv+")"))
	t.event("read", "0", "")
	return true
}

// r.Read(buf) on an external reader: a short read is possible.
func (t *fnTrans) readerRead(in ssa.Instruction, cc *ssa.CallCommon, res ssa.Value) bool {
	if cc.Method == nil || cc.Method.Name() != "Read" || len(cc.Args) != 1 {
		return false
	}
	sl, ok := cc.Args[0].Type().Underlying().(*types.Slice)
	if !ok || t.sortOf(sl.Elem()) != "Int" {
		return false
	}
	t.blockCheck(in.Pos(), "read:"+t.describe(cc.Value)+".Read")
	r := t.val(cc.Value)
	buf := t.val(cc.Args[0])
	rs := t.freshResults(res, nameOf(res, "rd"))
	n, errv := rs[0], rs[1]
	t.libErrorFact(errv)
	t.assume(fmt.Sprintf("(and (<= 0 %s) (<= %s (sl_len %s)))", n, n, buf))
	// trusted: a net.Conn / io.Reader does not return (0, nil) for a non-empty buffer
	t.assume(implies(and("(= (itag "+errv+") 0)", "(> (sl_len "+buf+") 0)"), "(>= "+n+" 1)"))
	stream := t.rstreamOf(r)
	pos := t.c.define(t.c.fresh("rpos"), "Int", t.rposGet(t.cur, r))
	t.assume("(<= 0 " + pos + ")")
	t.h.reg("E:Int", "(Array Int (Array Int Int))")
	e := t.h.get(t.cur, "E:Int")
	R := t.c.declare(t.c.fresh("rd.R"), "(Array Int Int)")
	j := q(t.c.fresh("j"))
	old := sel(e, "(sl_arr "+buf+")")
	t.assume(fmt.Sprintf("(forall ((%s Int)) (! (= (select %s %s) (ite (and (<= (sl_off %s) %s) (< %s (+ (sl_off %s) %s))) (select %s (+ %s (- %s (sl_off %s)))) (select %s %s))) :pattern ((select %s %s))))",
		j, R, j, buf, j, j, buf, n, stream, pos, j, buf, old, j, R, j))
	t.h.set(t.cur, "E:Int", store(e, "(sl_arr "+buf+")", R))
	t.rposSet(r, "(+ "+pos+" "+n+")")
	t.event("read", "0", "")
	return true
}

func init() {
	specFuncs["rpos"] = func(e *evalCtx, args []*sx) sval {
		v := e.eval(args[0])
		return intv(e.t.rposGet(e.st, v.term))
	}
	specFuncs["stream_at"] = func(e *evalCtx, args []*sx) sval {
		v := e.eval(args[0])
		i := e.eval(args[1])
		return intv(sel(e.t.rstreamOf(v.term), i.term))
	}
	// sbe64(r, off): signed big-endian 64-bit value of the stream bytes at off
	specFuncs["sbe64"] = func(e *evalCtx, args []*sx) sval {
		v := e.eval(args[0])
		off := e.eval(args[1])
		raw := "(be64 " + e.t.rstreamOf(v.term) + " " + off.term + ")"
		return intv("(ite (>= " + raw + " 9223372036854775808) (- " + raw + " 18446744073709551616) " + raw + ")")
	}
	specFuncs["sbe16"] = func(e *evalCtx, args []*sx) sval {
		v := e.eval(args[0])
		off := e.eval(args[1])
		return intv("(be16 " + e.t.rstreamOf(v.term) + " " + off.term + ")")
	}
	// from_stream(s, r, off): slice s holds the stream bytes of r starting at off
	specFuncs["from_stream"] = func(e *evalCtx, args []*sx) sval {
		s := e.eval(args[0])
		r := e.eval(args[1])
		off := e.eval(args[2])
		t := e.t
		t.h.reg("E:Int", "(Array Int (Array Int Int))")
		arr := sel(t.h.get(e.elemState(s), "E:Int"), "(sl_arr "+s.term+")")
		j := q(t.c.fresh("j"))
		return boolv(fmt.Sprintf("(forall ((%s Int)) (=> (and (<= 0 %s) (< %s (sl_len %s))) (= (select %s (ix (sl_off %s) %s)) (select %s (+ %s %s)))))", j, j, j, s.term, arr, s.term, j, t.rstreamOf(r.term), off.term, j))
	}
	specFuncs["allocbytes"] = func(e *evalCtx, args []*sx) sval {
		hv := e.t.h.reg("ghost:allocbytes", "Int")
		return intv(e.t.h.get(e.st, hv))
	}
	libModels["encoding/binary.Read"] = &libModel{apply: (*fnTrans).mBinaryRead, mods: func(g *Gen, c *FnCtx, cc *ssa.CallCommon) []string {
		s := &summary{vars: map[string]bool{rposHV: true}}
		if mi, ok := cc.Args[2].(*ssa.MakeInterface); ok {
			g.noteStore(c, s, mi.X)
		}
		var out []string
		for v := range s.vars {
			out = append(out, v)
		}
		return out
	}}
	libModels["encoding/binary.Write"] = &libModel{pure: true, apply: (*fnTrans).mBinaryWrite}
	libModels["io.ReadFull"] = &libModel{apply: (*fnTrans).mReadFull, mods: func(g *Gen, c *FnCtx, cc *ssa.CallCommon) []string {
		return []string{"E:Int", rposHV}
	}}
	_ = strings.TrimSpace
}
