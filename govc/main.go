package main

import (
	"flag"
	"go/types"
	"fmt"
	"os"
	"regexp"
	"runtime"
	"sort"
	"strings"
	"sync"
	"time"

	"golang.org/x/tools/go/packages"
	"golang.org/x/tools/go/ssa"
	"golang.org/x/tools/go/ssa/ssautil"
)

const modulePath = "go.nanomsg.org/mangos/v3"

func loadGen(dir string) (*Gen, error) {
	if os.Getenv("GOVC_TIMING") != "" {
		defer func(t0 time.Time) { fmt.Fprintf(os.Stderr, "loadGen total: %v\n", time.Since(t0)) }(time.Now())
	}
	cfg := &packages.Config{Mode: packages.LoadAllSyntax, Dir: dir, BuildFlags: []string{"-tags=verif"},
		Env: append(os.Environ(), "GOFLAGS=-mod=mod", "GOPROXY=off", "GOSUMDB=off", "GOTOOLCHAIN=local")}
	pkgs, err := packages.Load(cfg, "./...")
	if err != nil {
		return nil, err
	}
	nerr := 0
	packages.Visit(pkgs, nil, func(p *packages.Package) {
		for _, e := range p.Errors {
			if strings.HasPrefix(p.PkgPath, modulePath) {
				fmt.Fprintf(os.Stderr, "load error: %s: %v\n", p.PkgPath, e)
				nerr++
			}
		}
	})
	if nerr > 0 {
		return nil, fmt.Errorf("%d package load errors", nerr)
	}
	prog, spkgs := ssautil.AllPackages(pkgs, ssa.GlobalDebug|ssa.BareInits)
	prog.Build()
	g := &Gen{prog: prog, pkgs: pkgs, spkgs: spkgs, mod: modulePath, typeTags: map[string]int{}, tagNames: map[int]string{},
		heapSorts: map[string]string{}, fieldTags: map[string]int{}, ann: newAnnotations(), impls: map[string][]*ssa.Function{}, ifaceImplCache: map[*ssa.Function][]ifaceImpl{}}
	// all functions of the module (incl. closures), deterministic order
	fns := ssautil.AllFunctions(prog)
	for f := range fns {
		if g.fnInModule(f) && len(f.Blocks) > 0 {
			g.allFuncs = append(g.allFuncs, f)
		}
	}
	sort.Slice(g.allFuncs, func(i, j int) bool { return g.fnKey(g.allFuncs[i]) < g.fnKey(g.allFuncs[j]) })
	g.infoOf = map[*types.Package]*types.Info{}
	packages.Visit(pkgs, nil, func(p *packages.Package) {
		if p.Types != nil && p.TypesInfo != nil {
			g.infoOf[p.Types] = p.TypesInfo
		}
	})
	g.computeAliases()
	g.loadSnapFuncs()
	g.loadSnapFields()
	if os.Getenv("GOVC_TIMING") != "" {
		defer func(t0 time.Time) { fmt.Fprintf(os.Stderr, "post-load phases: %v\n", time.Since(t0)) }(time.Now())
	}
	if err := g.loadAnnotations(dir); err != nil {
		return nil, err
	}
	g.resolveAnnotations()
	g.computeMutableGlobals()
	g.computeSummaries()
	g.computeSpawned()
	return g, nil
}

func (g *Gen) translate(fn *ssa.Function) (t *fnTrans, err error) {
	c := newFnCtx()
	t = &fnTrans{g: g, fn: fn, key: g.fnKey(fn), c: c, h: &HeapReg{c: c, sorts: map[string]string{}},
		vals: map[ssa.Value][]string{}, locs: map[ssa.Value]*loc{}, out: map[*ssa.BasicBlock]*State{},
		edge: map[[2]int]string{}, names: map[string][]nameRef{}, local: map[ssa.Value]bool{},
		closures: map[ssa.Value]*ssa.MakeClosure{}, sites: map[ssa.Instruction]string{}, siteState: map[string]*State{},
		uncontracted: map[string]bool{}, rangeOf: map[ssa.Value]*ssa.Range{}, stable: map[ssa.Value]string{}, ghostVals: map[string]sval{}, usedContracts: map[string]bool{}, capturedBorrow: map[ssa.Value]bool{}, selIdx: map[string]string{}}
	t.contract = g.contractOf(fn)
	t.plan = g.inlinePlanFor(fn)
	t.inlined = map[string]bool{}
	defer func() {
		if r := recover(); r != nil {
			err = fmt.Errorf("translate %s: %v", t.key, r)
		}
	}()
	t.run()
	return t, nil
}

// production (non-test, non-example) functions
func (g *Gen) inScope(fn *ssa.Function) bool {
	root := fn
	for root.Parent() != nil {
		root = root.Parent()
	}
	if root.Pkg == nil {
		return false
	}
	p := g.relPkg(root.Pkg.Pkg.Path())
	if strings.HasPrefix(p, "examples/") || strings.HasPrefix(p, "perf") || p == "test" || strings.HasPrefix(p, "internal/test") {
		return false
	}
	if root.Synthetic != "" && !strings.HasPrefix(root.Name(), "init") {
		return false
	}
	return true
}

type runResult struct {
	obls     []*Obligation
	funcs    int
	errs     []string
	abstracted map[string][]string
	uncontracted map[string][]string
	wall     time.Duration
	solveMs  int64
	ctxOf    map[*Obligation]*FnCtx
	inContext []string // helpers verified only inside their callers
}

func (g *Gen) runAll(funcRe *regexp.Regexp, kinds map[string]bool, timeoutMs int, keep func(*Obligation) bool) *runResult {
	res := &runResult{abstracted: map[string][]string{}, uncontracted: map[string][]string{}, ctxOf: map[*Obligation]*FnCtx{}}
	start := time.Now()
	type job struct {
		t    *fnTrans
		obls []*Obligation
	}
	var jobs []job
	for _, fn := range g.allFuncs {
		if !g.inScope(fn) {
			continue
		}
		key := g.fnKey(fn)
		if funcRe != nil && !funcRe.MatchString(key) {
			continue
		}
		if g.inlineOnly(fn) {
			// a helper the contracts do not know, only ever called directly: verified inside
			// each of its callers (inline.go), not on its own
			res.inContext = append(res.inContext, key)
			continue
		}
		t, err := g.translate(fn)
		if err != nil {
			res.errs = append(res.errs, err.Error())
			continue
		}
		res.funcs++
		var sel []*Obligation
		for _, o := range t.c.obls {
			if t.contract != nil && t.contract.trusted && o.Kind != "canary" {
				continue // trusted contract: the body is not verified (listed as an assumption)
			}
			if kinds != nil && !kinds[o.Kind] && !kinds[strings.SplitN(o.Kind, ".", 2)[0]] {
				continue
			}
			if keep != nil && !keep(o) {
				continue
			}
			sel = append(sel, o)
		}
		if len(t.abstracted) > 0 {
			res.abstracted[key] = t.abstracted
		}
		if len(t.uncontracted) > 0 {
			res.uncontracted[key] = sortedKeys(t.uncontracted)
		}
		if len(sel) > 0 {
			jobs = append(jobs, job{t, sel})
		}
	}
	var wg sync.WaitGroup
	sem := make(chan struct{}, runtime.NumCPU())
	for _, j := range jobs {
		wg.Add(1)
		sem <- struct{}{}
		go func(j job) {
			defer wg.Done()
			defer func() { <-sem }()
			solveBatch(j.t.c, j.obls, timeoutMs)
			resolveUnproved(j.t.c, j.t.c.obls, j.obls, timeoutMs)
		}(j)
	}
	wg.Wait()
	for _, j := range jobs {
		res.obls = append(res.obls, j.obls...)
		for _, o := range j.obls {
			res.ctxOf[o] = j.t.c
			res.solveMs += o.Ms
		}
	}
	res.wall = time.Since(start)
	return res
}

func main() {
	if len(os.Args) < 2 {
		fmt.Println("usage: govc sweep|dump|check ...")
		os.Exit(2)
	}
	switch os.Args[1] {
	case "sweep":
		cmdSweep(os.Args[2:])
	case "dump":
		cmdDump(os.Args[2:])
	case "check":
		cmdCheck(os.Args[2:])
	case "sites":
		cmdSites(os.Args[2:])
	case "coverage":
		cmdCoverage(os.Args[2:])
	case "snapshot-names":
		cmdSnapshotNames(os.Args[2:])
	case "funcs":
		cmdFuncs(os.Args[2:])
	default:
		fmt.Println("unknown command")
		os.Exit(2)
	}
}

func cmdSweep(args []string) {
	fs := flag.NewFlagSet("sweep", flag.ExitOnError)
	dir := fs.String("dir", "/repo", "repository")
	kindsF := fs.String("kinds", "", "comma separated kinds or kind families (lock,safe,guard)")
	funcF := fs.String("func", "", "regexp on function key")
	to := fs.Int("timeout", 5000, "per query timeout ms")
	verbose := fs.Bool("v", false, "print every obligation")
	showModel := fs.Bool("model", false, "print models of failing obligations")
	fs.Parse(args)
	repoDir = *dir
	g, err := loadGen(*dir)
	if err != nil {
		fmt.Fprintln(os.Stderr, err)
		os.Exit(2)
	}
	for _, mf := range g.missingContractFuncs() {
		fmt.Printf("CONTRACT-WITHOUT-FUNCTION %s (%s:%d)\n", mf.fnKey, mf.file, mf.line)
	}
	var kinds map[string]bool
	if *kindsF != "" {
		kinds = map[string]bool{}
		for _, k := range strings.Split(*kindsF, ",") {
			kinds[k] = true
		}
	}
	var re *regexp.Regexp
	if *funcF != "" {
		re = regexp.MustCompile(*funcF)
	}
	res := g.runAll(re, kinds, *to, nil)
	for _, e := range g.ann.errs {
		fmt.Println("ANNOTATION-ERROR:", e)
	}
	for _, e := range res.errs {
		fmt.Println("ERROR:", e)
	}
	byKind := map[string][2]int{}
	var failing []*Obligation
	for _, o := range res.obls {
		x := byKind[o.Kind]
		x[0]++
		if o.Status == "unsat" {
			x[1]++
		} else {
			failing = append(failing, o)
		}
		byKind[o.Kind] = x
		if *verbose {
			fmt.Printf("%-7s %-60s %s [%s %dms]\n", o.Status, o.Name, o.Pos, o.Solver, o.Ms)
		}
	}
	sort.Slice(failing, func(i, j int) bool { return failing[i].Name < failing[j].Name })
	for _, o := range failing {
		fmt.Printf("FAIL %-8s %s  (%s) %s\n", o.Status, o.Name, o.Pos, o.Note)
		if *showModel {
			fmt.Println(o.Model)
		}
	}
	var ks []string
	for k := range byKind {
		ks = append(ks, k)
	}
	sort.Strings(ks)
	tot, dis := 0, 0
	for _, k := range ks {
		fmt.Printf("%-18s %5d obligations %5d discharged\n", k, byKind[k][0], byKind[k][1])
		tot += byKind[k][0]
		dis += byKind[k][1]
	}
	fmt.Printf("functions=%d obligations=%d discharged=%d failing=%d wall=%.1fs errors=%d\n", res.funcs, tot, dis, tot-dis, res.wall.Seconds(), len(res.errs))
}

func cmdDump(args []string) {
	fs := flag.NewFlagSet("dump", flag.ExitOnError)
	dir := fs.String("dir", "/repo", "repository")
	funcF := fs.String("func", "", "regexp on function key")
	obl := fs.String("obl", "", "obligation name substring: print its query")
	fs.Parse(args)
	g, err := loadGen(*dir)
	if err != nil {
		fmt.Fprintln(os.Stderr, err)
		os.Exit(2)
	}
	re := regexp.MustCompile(*funcF)
	g.canary = true
	for _, fn := range g.allFuncs {
		key := g.fnKey(fn)
		if !re.MatchString(key) {
			continue
		}
		t, err := g.translate(fn)
		if err != nil {
			fmt.Println("ERROR", err)
			continue
		}
		fmt.Printf("== %s: %d obligations, %d defs\n", key, len(t.c.obls), len(t.c.defs))
		for _, o := range t.c.obls {
			if *obl != "" {
				if strings.Contains(o.Name, *obl) {
					fmt.Printf(";; %s (%s)\n%s\n", o.Name, o.Pos, t.c.queryFor(o))
				}
				continue
			}
			fmt.Printf("  %s (%s) trivial=%v\n", o.Name, o.Pos, o.Trivial)
		}
		for s := range t.siteState {
			_ = s
		}
		if *obl == "" {
			var ss []string
			for _, se := range t.allSites {
				in, s := se.in, se.label
				pp := in.Pos()
				if iff, ok := in.(*ssa.If); ok {
					pp = condPos(iff.Cond)
				}
				ps := g.posStr(pp)
				if i := strings.LastIndex(ps, ":"); i >= 0 {
					ps = ps[i+1:]
				}
				ss = append(ss, s+"@"+ps)
			}
			sort.Strings(ss)
			fmt.Println("  sites:", strings.Join(ss, " "))
			for _, a := range t.abstracted {
				fmt.Println("  abstracted:", a)
			}
		}
	}
}


// cmdSites lists the contract sites of the matching functions (and the cases of every select):
// a helper for writing contracts.
func cmdSites(args []string) {
	fs := flag.NewFlagSet("sites", flag.ExitOnError)
	dir := fs.String("dir", "/repo", "repository")
	funcF := fs.String("func", "", "regexp on function key")
	selOnly := fs.Bool("select", false, "only select statements")
	fs.Parse(args)
	repoDir = *dir
	g, err := loadGen(*dir)
	if err != nil {
		fmt.Println("LOAD-ERROR:", err)
		os.Exit(2)
	}
	re := regexp.MustCompile(*funcF)
	for _, fn := range g.allFuncs {
		if !g.inScope(fn) || !re.MatchString(g.fnKey(fn)) {
			continue
		}
		t, err := g.translate(fn)
		if err != nil {
			fmt.Println("TRANSLATION-ERROR:", err)
			continue
		}
		var names []string
		for _, se := range t.allSites {
			names = append(names, se.label)
		}
		sort.Strings(names)
		if !*selOnly {
			fmt.Printf("%s: %s\n", t.key, strings.Join(names, " "))
		}
		for _, se := range t.allSites {
			in, s := se.in, se.label
			sel, ok := in.(*ssa.Select)
			if !ok {
				continue
			}
			var cs []string
			for _, c := range t.selCases[s] {
				d := "<-" + c.desc
				if c.send {
					d = c.desc + "<-"
				}
				cs = append(cs, d)
			}
			fmt.Printf("%s %s blocking=%v (%s): %s\n", t.key, s, sel.Blocking, g.posStr(sel.Pos()), strings.Join(cs, " | "))
		}
	}
}

// resolveUnproved: an obligation that was not discharged must not be assumed by later ones.
// Its assumption flag is switched off and every discharged obligation of the function that
// comes after it is solved again, until nothing changes.  `all` is every obligation the
// translation produced for the function (selected or not, in program order): unselected ones
// with a flag are solved here too, because the selected ones may have been relying on them.
func resolveUnproved(c *FnCtx, all, selected []*Obligation, timeoutMs int) {
	isSel := map[*Obligation]bool{}
	for _, o := range selected {
		isSel[o] = true
	}
	// unselected, flagged obligations that precede some selected one: solve them quietly
	last := -1
	for i, o := range all {
		if isSel[o] {
			last = i
		}
	}
	var extra []*Obligation
	for i, o := range all {
		if i < last && !isSel[o] && o.flag != "" && o.Status == "" && !o.Trivial {
			extra = append(extra, o)
		}
	}
	if len(extra) > 0 {
		solveBatch1(c, extra, timeoutMs)
	}
	off := map[string]bool{}
	for round := 0; round < 8; round++ {
		changed := false
		firstOff := -1
		for i, o := range all {
			if o.flag != "" && o.Status != "" && o.Status != "unsat" && !off[o.flag] {
				off[o.flag] = true
				c.byName[o.flag].body = "false"
				changed = true
				if firstOff < 0 {
					firstOff = i
				}
			}
		}
		if !changed {
			return
		}
		var redo []*Obligation
		for i, o := range all {
			if i > firstOff && o.Status == "unsat" && !o.Trivial && (isSel[o] || o.flag != "") {
				o.Status, o.Solver = "", ""
				redo = append(redo, o)
			}
		}
		if len(redo) == 0 {
			return
		}
		solveBatch(c, redo, timeoutMs)
	}
}

// cmdCoverage: per function, how many functional obligations (site/post/pre/inv.*/monitor/own.*/
// subtype/loop.complete) exist and how many of them some property selects. Functions with a
// body of some size and no selected functional obligation are where a change goes unnoticed.
func cmdCoverage(args []string) {
	fs := flag.NewFlagSet("coverage", flag.ExitOnError)
	dir := fs.String("dir", "/repo", "repository")
	propsPath := fs.String("props", "/verif/props/props.json", "property configuration")
	fs.Parse(args)
	repoDir = *dir
	g, err := loadGen(*dir)
	if err != nil {
		fmt.Println("LOAD-ERROR:", err)
		os.Exit(2)
	}
	props, err := loadProps(*propsPath)
	if err != nil {
		fmt.Println(err)
		os.Exit(2)
	}
	functional := func(k string) bool {
		switch {
		case k == "site", k == "post", k == "pre", k == "monitor", k == "subtype", k == "loop.complete", k == "contract":
			return true
		case strings.HasPrefix(k, "inv."), strings.HasPrefix(k, "own."):
			return true
		}
		return false
	}
	type row struct {
		key            string
		instrs, fn, sel int
		props          map[string]bool
	}
	var rows []row
	for _, fn := range g.allFuncs {
		if !g.inScope(fn) {
			continue
		}
		t, err := g.translate(fn)
		if err != nil {
			continue
		}
		r := row{key: t.key, props: map[string]bool{}}
		for _, b := range fn.Blocks {
			r.instrs += len(b.Instrs)
		}
		for _, o := range t.c.obls {
			if !functional(o.Kind) || o.Trivial {
				continue
			}
			r.fn++
			hit := false
			for id, pc := range props {
				if pc.selects(o) {
					hit = true
					r.props[id] = true
				}
			}
			if hit {
				r.sel++
			}
		}
		rows = append(rows, r)
	}
	sort.Slice(rows, func(i, j int) bool { return rows[i].key < rows[j].key })
	for _, r := range rows {
		var ps []string
		for p := range r.props {
			ps = append(ps, p)
		}
		sort.Strings(ps)
		fmt.Printf("%4d instrs  %3d functional obligations  %3d selected  %-60s %s\n", r.instrs, r.fn, r.sel, r.key, strings.Join(ps, ","))
	}
}

// cmdFuncs prints "<function key>\t<file>" for every function of the module (closures under their parent's file).
func cmdFuncs(args []string) {
	fs := flag.NewFlagSet("funcs", flag.ExitOnError)
	dir := fs.String("dir", "/repo", "repository")
	sumRe := fs.String("summary", "", "print the syntactic frame (heap variables possibly written) of functions matching this regexp instead")
	fs.Parse(args)
	repoDir = *dir
	g, err := loadGen(*dir)
	if err != nil {
		fmt.Println("LOAD-ERROR:", err)
		os.Exit(2)
	}
	if *sumRe != "" {
		re := regexp.MustCompile(*sumRe)
		for _, fn := range g.allFuncs {
			if !re.MatchString(g.fnKey(fn)) {
				continue
			}
			s := g.summaries[fn]
			fmt.Printf("%s: all=%v blocks=%v vars=%v\n", g.fnKey(fn), s.all, s.blocks, sortedKeys(s.vars))
		}
		return
	}
	for _, fn := range g.allFuncs {
		root := fn
		for root.Parent() != nil {
			root = root.Parent()
		}
		pos := g.prog.Fset.Position(root.Pos())
		if !pos.IsValid() {
			continue
		}
		fmt.Printf("%s\t%s\n", g.fnKey(fn), strings.TrimPrefix(pos.Filename, repoDir+"/"))
	}
}
