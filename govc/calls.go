package main

import (
	"fmt"
	"go/token"
	"go/types"
	"sort"
	"strconv"
	"strings"

	"golang.org/x/tools/go/ssa"
)

// ---- summaries: which heap variables may a function write (transitively) ------

type summary struct {
	all    bool
	vars   map[string]bool
	blocks bool            // may block
	locks  map[string]bool // mutex fields (typeKey.field) it may acquire
}

func (g *Gen) staticCallee(c *ssa.CallCommon) *ssa.Function {
	if c.IsInvoke() {
		return nil
	}
	switch f := c.Value.(type) {
	case *ssa.Function:
		return f
	case *ssa.MakeClosure:
		return f.Fn.(*ssa.Function)
	}
	return nil
}

func (g *Gen) fnInModule(f *ssa.Function) bool {
	if f == nil {
		return false
	}
	if f.Pkg != nil {
		return g.inModule(f.Pkg.Pkg)
	}
	if f.Parent() != nil {
		return g.fnInModule(f.Parent())
	}
	if o := f.Object(); o != nil {
		return g.inModule(o.Pkg())
	}
	return false
}

func methodKey(m *types.Func) string {
	return m.Name()
}

// implementations of an interface method among module types (CHA)
func (g *Gen) invokeTargets(c *ssa.CallCommon) []*ssa.Function {
	iface, ok := c.Value.Type().Underlying().(*types.Interface)
	if !ok {
		return nil
	}
	ck := c.Value.Type().String() + "#" + c.Method.Name()
	if r, ok := g.impls[ck]; ok {
		return r
	}
	var out []*ssa.Function
	defer func() { g.impls[ck] = out }()
	for _, cand := range g.concreteTypes() {
		if types.Implements(cand, iface) {
			ms := g.prog.MethodSets.MethodSet(cand)
			sel := ms.Lookup(c.Method.Pkg(), c.Method.Name())
			if sel == nil {
				continue
			}
			if f := g.prog.MethodValue(sel); f != nil {
				out = append(out, f)
			}
		}
	}
	return out
}

var concreteCache []types.Type

func (g *Gen) concreteTypes() []types.Type {
	if concreteCache != nil {
		return concreteCache
	}
	for _, p := range g.spkgs {
		if p == nil || !g.inModule(p.Pkg) {
			continue
		}
		if strings.Contains(p.Pkg.Path(), "/internal/test") || strings.HasSuffix(p.Pkg.Path(), "/test") || strings.Contains(p.Pkg.Path(), "/examples/") || strings.Contains(p.Pkg.Path(), "/perf") {
			continue
		}
		for _, m := range p.Members {
			if tn, ok := m.(*ssa.Type); ok {
				T := tn.Type()
				if _, isIface := T.Underlying().(*types.Interface); isIface {
					continue
				}
				concreteCache = append(concreteCache, T, types.NewPointer(T))
			}
		}
	}
	return concreteCache
}

func (g *Gen) implementors(iface types.Type) []types.Type {
	it, ok := iface.Underlying().(*types.Interface)
	if !ok {
		return nil
	}
	var out []types.Type
	for _, c := range g.concreteTypes() {
		if types.Implements(c, it) {
			out = append(out, c)
		}
	}
	return out
}

// computeMutableGlobals: package-level variables written outside init functions.
func (g *Gen) computeMutableGlobals() {
	g.mutableGlobals = map[string]bool{}
	g.globalStored = map[string]bool{}
	g.globalMaybeNil = map[string]bool{}
	for _, f := range g.allFuncs {
		for _, b := range f.Blocks {
			for _, in := range b.Instrs {
				if st, ok := in.(*ssa.Store); ok {
					if gl, ok := st.Addr.(*ssa.Global); ok {
						hv := "G:" + g.relPkg(gl.Pkg.Pkg.Path()) + "." + gl.Name()
						g.globalStored[hv] = true
						switch st.Val.(type) {
						case *ssa.MakeChan, *ssa.MakeMap, *ssa.Alloc, *ssa.MakeClosure:
						default:
							g.globalMaybeNil[hv] = true
						}
					}
				}
			}
		}
	}
	for _, f := range g.allFuncs {
		root := f
		for root.Parent() != nil {
			root = root.Parent()
		}
		if strings.HasPrefix(root.Name(), "init") {
			continue
		}
		for _, b := range f.Blocks {
			for _, in := range b.Instrs {
				if st, ok := in.(*ssa.Store); ok {
					if gl, ok := st.Addr.(*ssa.Global); ok {
						g.mutableGlobals["G:"+g.relPkg(gl.Pkg.Pkg.Path())+"."+gl.Name()] = true
					}
				}
			}
		}
	}
}

func (g *Gen) computeSummaries() {
	g.summaries = map[*ssa.Function]*summary{}
	c := newFnCtx()
	for _, f := range g.allFuncs {
		g.summaries[f] = &summary{vars: map[string]bool{}, locks: map[string]bool{}}
	}
	type edge struct{ from, to *ssa.Function }
	var edges []edge
	for _, f := range g.allFuncs {
		s := g.summaries[f]
		for _, b := range f.Blocks {
			for _, in := range b.Instrs {
				switch in := in.(type) {
				case *ssa.Store:
					g.noteStore(c, s, in.Addr)
				case *ssa.MapUpdate:
					m := in.Map.Type().Underlying().(*types.Map)
					dn, vn := g.mapVarNames(m)
					s.vars[dn] = true
					s.vars[vn] = true
					s.vars["ML"] = true
				case *ssa.Send:
					s.blocks = true
				case *ssa.Select:
					if in.Blocking {
						s.blocks = true
					}
				case *ssa.UnOp:
					if in.Op == token.ARROW {
						s.blocks = true
					}
				case ssa.CallInstruction:
					if _, isGo := in.(*ssa.Go); isGo {
						continue
					}
					cc := in.Common()
					if callee := g.staticCallee(cc); callee != nil {
						if g.fnInModule(callee) {
							edges = append(edges, edge{f, callee})
						} else {
							g.noteExternal(c, s, callee, cc)
						}
						// closures passed to a few known synchronous library functions
						continue
					}
					if b, ok := cc.Value.(*ssa.Builtin); ok && !cc.IsInvoke() {
						g.noteBuiltin(c, s, b, cc)
						continue
					}
					if cc.IsInvoke() {
						ts := g.invokeTargets(cc)
						for _, tgt := range ts {
							edges = append(edges, edge{f, tgt})
						}
						if !g.inModule(cc.Method.Pkg()) && len(ts) == 0 {
							// external interface (net.Conn, io.Reader...): byte buffers only
							for _, a := range cc.Args {
								g.noteArgEscape(c, s, a)
							}
						}
						if g.inModule(cc.Method.Pkg()) && g.ifaceOpen(cc) {
							s.all = true
						}
						continue
					}
					// call through a function value: unknown
					s.all = true
					s.blocks = true
				}
			}
		}
	}
	changed := true
	for changed {
		changed = false
		for _, e := range edges {
			a, b := g.summaries[e.from], g.summaries[e.to]
			if b == nil {
				continue
			}
			if b.all && !a.all {
				a.all = true
				changed = true
			}
			if b.blocks && !a.blocks {
				a.blocks = true
				changed = true
			}
			for v := range b.vars {
				if !a.vars[v] {
					a.vars[v] = true
					changed = true
				}
			}
			for v := range b.locks {
				if !a.locks[v] {
					a.locks[v] = true
					changed = true
				}
			}
		}
	}
}

// ifaceOpen: interfaces that user code implements (hooks) make the call opaque.
func (g *Gen) ifaceOpen(cc *ssa.CallCommon) bool {
	return false
}

func (g *Gen) noteStore(c *FnCtx, s *summary, addr ssa.Value) {
	switch a := addr.(type) {
	case *ssa.FieldAddr:
		pt := a.X.Type().Underlying().(*types.Pointer)
		st := pt.Elem().Underlying().(*types.Struct)
		f := st.Field(a.Field)
		if _, isSt := f.Type().Underlying().(*types.Struct); isSt {
			g.noteStructStore(c, s, f.Type())
			return
		}
		s.vars["F:"+g.typeKey(pt.Elem())+"."+f.Name()] = true
	case *ssa.IndexAddr:
		var elem types.Type
		switch u := a.X.Type().Underlying().(type) {
		case *types.Slice:
			elem = u.Elem()
		case *types.Pointer:
			elem = u.Elem().Underlying().(*types.Array).Elem()
		}
		if _, isSt := elem.Underlying().(*types.Struct); isSt {
			g.noteStructStore(c, s, elem)
			return
		}
		s.vars[g.elemHVName(c, elem)] = true
	case *ssa.Global:
		s.vars["G:"+g.relPkg(a.Pkg.Pkg.Path())+"."+a.Name()] = true
	default:
		pt, ok := addr.Type().Underlying().(*types.Pointer)
		if !ok {
			return
		}
		if _, isSt := pt.Elem().Underlying().(*types.Struct); isSt {
			g.noteStructStore(c, s, pt.Elem())
			return
		}
		if at, isArr := pt.Elem().Underlying().(*types.Array); isArr {
			s.vars[g.elemHVName(c, at.Elem())] = true
			return
		}
		s.vars["C:"+bare(g.sortOf(c, pt.Elem()))] = true
	}
}

func (g *Gen) noteStructStore(c *FnCtx, s *summary, T types.Type) {
	st := T.Underlying().(*types.Struct)
	for i := 0; i < st.NumFields(); i++ {
		f := st.Field(i)
		if _, isSt := f.Type().Underlying().(*types.Struct); isSt {
			g.noteStructStore(c, s, f.Type())
			continue
		}
		s.vars["F:"+g.typeKey(T)+"."+f.Name()] = true
	}
}

func (g *Gen) noteArgEscape(c *FnCtx, s *summary, a ssa.Value) {
	switch u := a.Type().Underlying().(type) {
	case *types.Slice:
		s.vars[g.elemHVName(c, u.Elem())] = true
	case *types.Pointer:
		g.noteStore(c, s, a)
	case *types.Signature:
		s.all = true
	case *types.Interface:
		// a module object wrapped in an interface and handed to a library (e.g. binary.Read(x, ..., &v))
		if mi, ok := a.(*ssa.MakeInterface); ok {
			if _, isPtr := mi.X.Type().Underlying().(*types.Pointer); isPtr {
				g.noteStore(c, s, mi.X)
			}
			if sl, isSl := mi.X.Type().Underlying().(*types.Slice); isSl {
				s.vars[g.elemHVName(c, sl.Elem())] = true
			}
		}
	}
}

func (g *Gen) noteExternal(c *FnCtx, s *summary, callee *ssa.Function, cc *ssa.CallCommon) {
	name := callee.String()
	if blockingExternals[name] || name == "(*sync.Cond).Wait" {
		// for the callers of the enclosing function this is a blocking operation
		s.blocks = true
	}
	if m, ok := libModels[name]; ok {
		if m.blocks {
			s.blocks = true
		}
		if m.pure {
			return
		}
		switch name {
		case "(*sync.Mutex).Lock", "(*sync.RWMutex).Lock", "(*sync.RWMutex).RLock", "(*sync.Cond).Wait":
			// guarded fields are havocked: find the mutex field
			if name == "(*sync.Cond).Wait" {
				// the argument is the cond, not the mutex: its lock comes from the `cond f uses path`
				// annotation; without one nothing is known about what other goroutines did meanwhile
				resolved := false
				if len(cc.Args) > 0 {
					var fa *ssa.FieldAddr
					switch a := cc.Args[0].(type) {
					case *ssa.FieldAddr:
						fa = a
					case *ssa.UnOp:
						fa, _ = a.X.(*ssa.FieldAddr)
					}
					if fa != nil {
						pt := fa.X.Type().Underlying().(*types.Pointer)
						st := pt.Elem().Underlying().(*types.Struct)
						if sa := g.ann.structs[g.typeKey(pt.Elem())]; sa != nil {
							if path, has := sa.conds[st.Field(fa.Field).Name()]; has {
								if lk, _ := g.resolveLockPath(pt.Elem(), path); lk != "" {
									s.locks[lk] = true
									for _, hv := range g.ann.guardedVars(lk) {
										s.vars[hv] = true
									}
									resolved = true
								}
							}
						}
					}
				}
				if !resolved {
					s.all = true
				}
				return
			}
			if len(cc.Args) > 0 {
				if fa, ok := cc.Args[0].(*ssa.FieldAddr); ok {
					pt := fa.X.Type().Underlying().(*types.Pointer)
					st := pt.Elem().Underlying().(*types.Struct)
					k := g.typeKey(pt.Elem()) + "." + st.Field(fa.Field).Name()
					s.locks[k] = true
					for _, hv := range g.ann.guardedVars(k) {
						s.vars[hv] = true
					}
				} else if name == "(*sync.Cond).Wait" {
					s.all = true
				}
			}
			return
		}
		if m.mods != nil {
			for _, v := range m.mods(g, c, cc) {
				s.vars[v] = true
			}
			return
		}
	}
	for _, a := range cc.Args {
		g.noteArgEscape(c, s, a)
	}
	if name == "(*sync.Once).Do" {
		s.all = true
	}
}

func (g *Gen) noteBuiltin(c *FnCtx, s *summary, b *ssa.Builtin, cc *ssa.CallCommon) {
	switch b.Name() {
	case "append", "copy":
		if sl, ok := cc.Args[0].Type().Underlying().(*types.Slice); ok {
			s.vars[g.elemHVName(c, sl.Elem())] = true
		}
	case "delete":
		m := cc.Args[0].Type().Underlying().(*types.Map)
		dn, vn := g.mapVarNames(m)
		s.vars[dn] = true
		s.vars[vn] = true
		s.vars["ML"] = true
	case "close":
		s.vars["chclosed"] = true
	}
}

// ---- library models -----------------------------------------------------------------

type libModel struct {
	pure   bool
	blocks bool
	mods   func(g *Gen, c *FnCtx, cc *ssa.CallCommon) []string
	apply  func(t *fnTrans, in ssa.Instruction, cc *ssa.CallCommon, res ssa.Value) bool
}

var libModels map[string]*libModel

// external functions that block on the network (lock.block: not while holding a lock)
var blockingExternals = map[string]bool{
	"(*net.Dialer).Dial":        true,
	"(*net.Dialer).DialContext": true,
	"net.Dial":                  true,
	"crypto/tls.DialWithDialer": true,
	"crypto/tls.Dial":           true,
	"(*net.TCPListener).Accept": true,
	"(*net.TCPListener).AcceptTCP": true,
	"(*net.UnixListener).Accept":   true,
	"(*net.UnixListener).AcceptUnix": true,
	"(*github.com/gorilla/websocket.Dialer).Dial": true,
	"(*github.com/gorilla/websocket.Conn).ReadMessage": true,
	"io.ReadFull":               true,
}

func init() {
	libModels = map[string]*libModel{
		"(*sync.Mutex).Lock":      {apply: (*fnTrans).mLock},
		"(*sync.Mutex).Unlock":    {apply: (*fnTrans).mUnlock},
		"(*sync.RWMutex).Lock":    {apply: (*fnTrans).mLock},
		"(*sync.RWMutex).Unlock":  {apply: (*fnTrans).mUnlock},
		"(*sync.RWMutex).RLock":   {apply: (*fnTrans).mRLock},
		"(*sync.RWMutex).RUnlock": {apply: (*fnTrans).mRUnlock},
		"(*sync.Cond).Wait":       {blocks: false, apply: (*fnTrans).mCondWait},
		"(*sync.Cond).Signal":     {pure: true},
		"(*sync.Cond).Broadcast":  {pure: true, apply: (*fnTrans).mBroadcast},
		"sync.NewCond":            {pure: true},
		"(*sync.WaitGroup).Add":   {pure: true},
		"(*sync.WaitGroup).Done":  {pure: true},
		"(*sync.WaitGroup).Wait":  {pure: true, blocks: true},
		"time.Sleep":              {pure: true, blocks: true},
		"time.After":              {pure: true, apply: (*fnTrans).mTimeAfter},
		"time.AfterFunc":          {pure: true, apply: (*fnTrans).mAfterFunc},
		"(*time.Timer).Stop":      {pure: true, apply: (*fnTrans).mTimerStop},
		"time.Now":                {pure: true},
		"(time.Time).Add":         {pure: true},
		"(time.Time).Sub":         {pure: true},
		"(time.Time).Before":      {pure: true},
		"(time.Time).After":       {pure: true},
		"time.Since":              {pure: true},
		"(time.Duration).String":  {pure: true},
		"errors.New":              {pure: true, apply: (*fnTrans).mNewError},
		"fmt.Sprintf":             {pure: true},
		"fmt.Errorf":              {pure: true, apply: (*fnTrans).mNewError},
		"strings.HasPrefix":       {pure: true, apply: (*fnTrans).mStrHasPrefix},
		"strings.Contains":        {pure: true},
		"strings.Index":           {pure: true, apply: (*fnTrans).mStringsIndex},
		"strings.TrimPrefix":      {pure: true, apply: (*fnTrans).mTrimPrefix},
		"strings.ToLower":         {pure: true},
		"strconv.Atoi":            {pure: true, apply: (*fnTrans).mAtoi},
		"strconv.Itoa":            {pure: true},
		"strconv.IsPrint":         {pure: true, apply: (*fnTrans).mIsPrint},
		"bytes.HasPrefix":         {pure: true, apply: (*fnTrans).mHasPrefix},
		"bytes.Equal":             {pure: true, apply: (*fnTrans).mBytesEqual},
		"sync/atomic.AddInt32":    {apply: (*fnTrans).mAtomicAdd, mods: atomicMods},
		"sync/atomic.AddUint32":   {apply: (*fnTrans).mAtomicAdd, mods: atomicMods},
		"sync/atomic.LoadInt32":   {pure: true, apply: (*fnTrans).mAtomicLoad},
		"sync/atomic.LoadUint32":  {pure: true, apply: (*fnTrans).mAtomicLoad},
		"sync/atomic.StoreInt32":  {apply: (*fnTrans).mAtomicStore, mods: atomicMods},
		"sync/atomic.StoreUint32": {apply: (*fnTrans).mAtomicStore, mods: atomicMods},
		"(encoding/binary.bigEndian).Uint16":    {pure: true, apply: (*fnTrans).mBEGet},
		"(encoding/binary.bigEndian).Uint32":    {pure: true, apply: (*fnTrans).mBEGet},
		"(encoding/binary.bigEndian).Uint64":    {pure: true, apply: (*fnTrans).mBEGet},
		"(encoding/binary.bigEndian).PutUint16": {apply: (*fnTrans).mBEPut, mods: bytesMods},
		"(encoding/binary.bigEndian).PutUint32": {apply: (*fnTrans).mBEPut, mods: bytesMods},
		"(encoding/binary.bigEndian).PutUint64": {apply: (*fnTrans).mBEPut, mods: bytesMods},
		"(*sync.Pool).Get":        {pure: true, apply: (*fnTrans).mPoolGet},
		"(*sync.Pool).Put":        {pure: true, apply: (*fnTrans).mPoolPut},
		"math/rand.Float64":       {pure: true, apply: (*fnTrans).mRandFloat},
		"math/rand.Intn":          {pure: true},
		"math/rand.Uint32":        {pure: true},
	}
}

func atomicMods(g *Gen, c *FnCtx, cc *ssa.CallCommon) []string {
	s := &summary{vars: map[string]bool{}}
	g.noteStore(c, s, cc.Args[0])
	var out []string
	for v := range s.vars {
		out = append(out, v)
	}
	return out
}

func bytesMods(g *Gen, c *FnCtx, cc *ssa.CallCommon) []string {
	return []string{"E:Int"}
}

// ---- call translation ------------------------------------------------------------------

func (t *fnTrans) bindResult(res ssa.Value, terms []string) {
	if res == nil {
		return
	}
	if _, ok := res.Type().(*types.Tuple); ok {
		t.vals[res] = terms
		return
	}
	if len(terms) == 1 {
		t.vals[res] = terms
	}
}

func (t *fnTrans) freshResults(res ssa.Value, prefix string) []string {
	if res == nil {
		return nil
	}
	var out []string
	if tu, ok := res.Type().(*types.Tuple); ok {
		for i := 0; i < tu.Len(); i++ {
			out = append(out, t.freshOf(fmt.Sprintf("%s.%d", prefix, i), tu.At(i).Type()))
		}
		t.vals[res] = out
		return out
	}
	out = []string{t.freshOf(prefix, res.Type())}
	t.vals[res] = out
	return out
}

func (t *fnTrans) call(in ssa.Instruction, cc *ssa.CallCommon, res ssa.Value) {
	site := t.sites[in]
	defer func() {
		if site != "" {
			t.siteAfter(site, in, cc, res)
		}
	}()
	if site != "" {
		t.siteBefore(site, in, cc)
	}
	if t.contract != nil {
		// event log: which functions this activation called (spec: called("Name"))
		t.event("called", nameTag("callee:"+calleeName(cc)), "")
	}
	// handing out the address of a by-value struct field (d.d.Dial(...): the receiver is &d.d) lets the
	// callee read it: an access to the field as far as its guard is concerned
	if _, isBuiltin := cc.Value.(*ssa.Builtin); !isBuiltin {
		for _, a := range cc.Args {
			if pl := t.pointeeLoc(a); pl != nil {
				// the callee may read what the guarded pointer points to
				t.guardAccess(pl, false, in.Pos())
			}
			if fa, ok := a.(*ssa.FieldAddr); ok {
				if l := t.locs[fa]; l != nil && l.kind == locCell && l.owner != "" {
					if _, isSt := t.isStruct(l.typ); isSt && !isSyncType(l.typ) {
						t.guardAccess(l, false, in.Pos())
					}
				}
			}
		}
	}
	if b, ok := cc.Value.(*ssa.Builtin); ok && !cc.IsInvoke() {
		t.builtin(in, b, cc, res)
		return
	}
	callee := t.g.staticCallee(cc)
	if callee != nil {
		name := callee.String()
		if m, ok := libModels[name]; ok {
			if m.blocks {
				t.blockCheck(in.Pos(), "call:"+callee.Name())
			}
			if m.apply != nil && m.apply(t, in, cc, res) {
				return
			}
			if m.pure {
				t.freshResults(res, nameOf(res, "r"))
				return
			}
		}
		if t.g.fnInModule(callee) {
			t.moduleCall(in, callee, cc, res, nil)
			return
		}
		t.externalCall(in, callee.String(), cc, res)
		return
	}
	if cc.IsInvoke() {
		t.nilIfaceCheck(cc.Value, in.Pos())
		tgts := t.g.invokeTargets(cc)
		if t.g.inModule(cc.Method.Pkg()) || len(tgts) > 0 {
			t.invokeCall(in, cc, res, tgts)
			return
		}
		if t.readerRead(in, cc, res) {
			return
		}
		t.externalCall(in, cc.Method.FullName(), cc, res)
		return
	}
	// function value
	if mc, ok := t.closures[cc.Value]; ok {
		if c, ok := t.fnCandidate(mc, cc); ok {
			t.moduleCall(in, c.fn, c.cc, res, c.mc)
			return
		}
		t.moduleCall(in, mc.Fn.(*ssa.Function), cc, res, mc)
		return
	}
	if cands := t.fnCandidates(cc.Value, cc, 0); len(cands) > 0 {
		t.multiCall(in, cc, res, cands)
		return
	}
	t.unknownCall(in, cc, res)
}

// A call through a function value whose every possible source is a closure, bound method or
// function of the module (a phi of such values) is a choice between those callees.
type fnCand struct {
	fn  *ssa.Function
	cc  *ssa.CallCommon
	mc  *ssa.MakeClosure
	tag string
}

// fnCandidate: the callee behind one MakeClosure; bound-method wrappers are replaced by the method itself.
func (t *fnTrans) fnCandidate(mc *ssa.MakeClosure, cc *ssa.CallCommon) (fnCand, bool) {
	fn := mc.Fn.(*ssa.Function)
	tag := nameTag("fn:" + t.g.fnKey(fn))
	if strings.HasSuffix(fn.Name(), "$bound") && len(mc.Bindings) == 1 {
		for _, b := range fn.Blocks {
			for _, in := range b.Instrs {
				if c, ok := in.(*ssa.Call); ok {
					if m := c.Common().StaticCallee(); m != nil && t.g.fnInModule(m) && len(m.Blocks) > 0 {
						cc2 := &ssa.CallCommon{Value: m, Args: append([]ssa.Value{mc.Bindings[0]}, cc.Args...)}
						return fnCand{fn: m, cc: cc2, tag: tag}, true
					}
				}
			}
		}
		return fnCand{}, false
	}
	if !t.g.fnInModule(fn) || len(fn.Blocks) == 0 {
		return fnCand{}, false
	}
	return fnCand{fn: fn, cc: cc, mc: mc, tag: tag}, true
}

func (t *fnTrans) fnCandidates(v ssa.Value, cc *ssa.CallCommon, depth int) []fnCand {
	if depth > 4 {
		return nil
	}
	switch x := v.(type) {
	case *ssa.MakeClosure:
		if c, ok := t.fnCandidate(x, cc); ok {
			return []fnCand{c}
		}
	case *ssa.Function:
		if t.g.fnInModule(x) && len(x.Blocks) > 0 {
			cc2 := &ssa.CallCommon{Value: x, Args: cc.Args}
			return []fnCand{{fn: x, cc: cc2, tag: nameTag("fn:" + t.g.fnKey(x))}}
		}
	case *ssa.Phi:
		var out []fnCand
		seen := map[string]bool{}
		for _, e := range x.Edges {
			cs := t.fnCandidates(e, cc, depth+1)
			if len(cs) == 0 {
				return nil
			}
			for _, c := range cs {
				if !seen[c.tag] {
					seen[c.tag] = true
					out = append(out, c)
				}
			}
		}
		return out
	}
	return nil
}

func (t *fnTrans) multiCall(in ssa.Instruction, cc *ssa.CallCommon, res ssa.Value, cands []fnCand) {
	pre := t.cur
	pre.frozen = true
	v := t.val(cc.Value)
	var outs []*State
	var conds, reaches []string
	var results [][]string
	for _, c := range cands {
		t.cur = t.h.child(pre)
		cond := "(= (fnid " + v + ") " + c.tag + ")"
		t.assume(cond)
		t.moduleCall(in, c.fn, c.cc, res, c.mc)
		outs = append(outs, t.cur)
		conds = append(conds, cond)
		reaches = append(reaches, t.cur.reach)
		if res != nil {
			results = append(results, append([]string{}, t.vals[res]...))
		}
	}
	if len(outs) == 1 {
		return
	}
	rn := t.c.define(t.c.fresh("R@fn"), "Bool", or(reaches...))
	t.cur = t.h.child(t.h.join(outs, conds, rn))
	if res != nil && len(results) > 0 {
		n := len(results[0])
		merged := make([]string, n)
		for i := 0; i < n; i++ {
			body := results[len(results)-1][i]
			for k := len(results) - 2; k >= 0; k-- {
				if len(results[k]) != n {
					return
				}
				body = ite(conds[k], results[k][i], body)
			}
			srt := t.sortOf(res.Type())
			if tu, ok := res.Type().(*types.Tuple); ok {
				srt = t.sortOf(tu.At(i).Type())
			}
			merged[i] = t.c.define(t.c.fresh(nameOf(res, "r")), srt, body)
		}
		t.vals[res] = merged
	}
}

func nameOf(v ssa.Value, d string) string {
	if v == nil {
		return d
	}
	return v.Name()
}

func (t *fnTrans) nilIfaceCheck(v ssa.Value, pos token.Pos) {
	// interface receivers follow the same trust policy as pointers
	x := t.val(v)
	if t.mayBeNil(v) {
		t.oblige("safe.nil", "invoke:"+t.describe(v), pos, "(not (= (itag "+x+") 0))", "method call on nil interface")
	}
}

// havocVars makes the listed heap variables arbitrary (all if all==true),
// keeping ghost lock state.
func (t *fnTrans) havocVars(all bool, vars map[string]bool) {
	keepGhost := func(hv string) bool {
		if w := t.g.ann.singleWriterHV[hv]; w != "" && (t.fn.Name() == w || strings.HasPrefix(t.fn.Name(), w+"$")) {
			return true // nobody but this function writes the field
		}
		return hv == "held" || hv == "rheld" || hv == "alloc" || strings.HasPrefix(hv, "ghost:") || strings.HasPrefix(hv, "RV:") || t.g.ann.immutableHV[hv]
	}
	reach := t.cur.reach
	defers := t.cur.defers
	if all {
		t.cur = t.h.child(t.h.havoc(t.cur, keepGhost))
	} else {
		vs := vars
		t.cur = t.h.child(t.h.havoc(t.cur, func(hv string) bool { return keepGhost(hv) || !vs[hv] }))
	}
	t.cur.reach = reach
	t.cur.defers = defers
	t.bumpAlloc()
}

func (t *fnTrans) moduleCall(in ssa.Instruction, callee *ssa.Function, cc *ssa.CallCommon, res ssa.Value, mc *ssa.MakeClosure) {
	if t.contractCall(in, callee, cc, res, mc) {
		return
	}
	if mc == nil && t.curNode != nil {
		if kid := t.curNode.kids[in]; kid != nil && kid.fn == callee {
			t.inlineCall(kid, in, callee, cc, res)
			return
		}
	}
	s := t.g.summaries[callee]
	key := t.g.fnKey(callee)
	t.uncontracted[key] = true
	preSt := t.cur
	if s == nil {
		t.havocVars(true, nil)
	} else {
		if s.blocks {
			t.blockCheck(in.Pos(), "call:"+callee.Name())
		}
		t.lockCallCheck(in, callee, s)
		t.havocVars(s.all, s.vars)
	}
	t.ownFrame(preSt, cc.Args)
	rs := t.freshResults(res, nameOf(res, "r"))
	t.ownCallHook(in, callee, cc, res)
	t.resultFacts(callee, cc, res, rs)
}

func (t *fnTrans) invokeCall(in ssa.Instruction, cc *ssa.CallCommon, res ssa.Value, tgts []*ssa.Function) {
	t.event("called", nameTag("callee:"+cc.Method.Name()), "")
	if t.contractInvoke(in, cc, res, tgts) {
		return
	}
	if t.splitInvoke(in, cc, res, tgts) {
		return
	}
	all := len(tgts) == 0
	vars := map[string]bool{}
	blocks := false
	for _, f := range tgts {
		s := t.g.summaries[f]
		if s != nil && s.blocks {
			blocks = true
		}
		if s == nil || s.all {
			all = true
			continue
		}
		for v := range s.vars {
			vars[v] = true
		}
	}
	if blocks {
		t.blockCheck(in.Pos(), "invoke:"+cc.Method.Name())
	}
	for _, f := range tgts {
		if s := t.g.summaries[f]; s != nil {
			t.lockCallCheck(in, f, s)
		}
	}
	t.uncontracted["invoke "+t.g.typeKey(cc.Value.Type())+"."+cc.Method.Name()] = true
	preSt := t.cur
	t.havocVars(all, vars)
	t.ownFrame(preSt, cc.Args)
	t.freshResults(res, nameOf(res, "r"))
	t.ownInvokeHook(in, cc, res)
}

// splitInvoke: an interface call without an interface-level contract whose every implementation in
// the module has a contract of its own (and there are few of them) is a choice on the dynamic type:
// one modular call per implementation under `itag(v) == tag(T)`, plus -- the interface is open --
// an arbitrary implementation (the old treatment) for every other dynamic type.
func (t *fnTrans) splitInvoke(in ssa.Instruction, cc *ssa.CallCommon, res ssa.Value, tgts []*ssa.Function) bool {
	if len(tgts) == 0 || len(tgts) > 8 {
		return false
	}
	for _, f := range tgts {
		if f.Signature.Recv() == nil || len(f.Blocks) == 0 || f.Synthetic != "" || !t.g.fnInModule(f) {
			return false
		}
		if fc := t.g.ann.funcs[t.g.contractKey(f)]; fc == nil {
			return false
		}
	}
	pre := t.cur
	pre.frozen = true
	v := t.val(cc.Value)
	var outs []*State
	var conds, reaches []string
	var results [][]string
	for _, f := range tgts {
		rt := f.Signature.Recv().Type()
		t.cur = t.h.child(pre)
		cond := fmt.Sprintf("(= (itag %s) %d)", v, t.g.tagOf(rt))
		t.assume(cond)
		rv := ssa.NewConst(nil, rt)
		t.vals[rv] = []string{t.ifacePayload(rt, v)}
		cc2 := &ssa.CallCommon{Value: f, Args: append([]ssa.Value{rv}, cc.Args...)}
		t.moduleCall(in, f, cc2, res, nil)
		outs = append(outs, t.cur)
		conds = append(conds, cond)
		reaches = append(reaches, t.cur.reach)
		if res != nil {
			results = append(results, append([]string{}, t.vals[res]...))
		}
	}
	// any other dynamic type
	{
		t.cur = t.h.child(pre)
		var not []string
		for _, c := range conds {
			not = append(not, "(not "+c+")")
		}
		cond := and(not...)
		t.assume(cond)
		all := false
		vars := map[string]bool{}
		for _, f := range tgts {
			s := t.g.summaries[f]
			if s == nil || s.all {
				all = true
				continue
			}
			for hv := range s.vars {
				vars[hv] = true
			}
		}
		preSt := t.cur
		t.havocVars(all, vars)
		t.ownFrame(preSt, cc.Args)
		t.freshResults(res, nameOf(res, "r"))
		t.ownInvokeHook(in, cc, res)
		outs = append(outs, t.cur)
		conds = append(conds, cond)
		reaches = append(reaches, t.cur.reach)
		if res != nil {
			results = append(results, append([]string{}, t.vals[res]...))
		}
	}
	rn := t.c.define(t.c.fresh("R@invoke"), "Bool", or(reaches...))
	t.cur = t.h.child(t.h.join(outs, conds, rn))
	if res != nil && len(results) > 0 {
		n := len(results[0])
		merged := make([]string, n)
		for i := 0; i < n; i++ {
			body := results[len(results)-1][i]
			for k := len(results) - 2; k >= 0; k-- {
				if len(results[k]) != n {
					return true
				}
				body = ite(conds[k], results[k][i], body)
			}
			srt := t.sortOf(res.Type())
			if tu, ok := res.Type().(*types.Tuple); ok {
				srt = t.sortOf(tu.At(i).Type())
			}
			merged[i] = t.c.define(t.c.fresh(nameOf(res, "r")), srt, body)
		}
		t.vals[res] = merged
	}
	return true
}

func (t *fnTrans) externalCall(in ssa.Instruction, name string, cc *ssa.CallCommon, res ssa.Value) {
	if blockingExternals[name] {
		t.blockCheck(in.Pos(), "call:"+name)
	}
	s := &summary{vars: map[string]bool{}}
	for _, a := range cc.Args {
		t.g.noteArgEscape(t.c, s, a)
	}
	if name == "(*sync.Once).Do" {
		// runs the closure synchronously (at most once): treat as a call that may or may not happen
		if mc, ok := t.closures[cc.Args[1]]; ok {
			cs := t.g.summaries[mc.Fn.(*ssa.Function)]
			if cs != nil && !cs.all {
				t.havocVars(false, cs.vars)
				return
			}
		}
		s.all = true
	}
	allocBefore := t.h.get(t.cur, "alloc")
	t.havocVars(s.all, s.vars)
	rs := t.freshResults(res, nameOf(res, "r"))
	// trusted: slices returned by library calls are freshly allocated; their errors are not mangos errors
	if res != nil {
		if tu, ok := res.Type().(*types.Tuple); ok {
			for i := 0; i < tu.Len(); i++ {
				if tu.At(i).Type().String() == "error" {
					t.libErrorFact(rs[i])
				}
				if _, isSl := tu.At(i).Type().Underlying().(*types.Slice); isSl {
					t.assume("(or (= (sl_arr " + rs[i] + ") 0) (> (sl_arr " + rs[i] + ") " + allocBefore + "))")
				}
			}
		} else if _, isSl := res.Type().Underlying().(*types.Slice); isSl {
			t.assume("(or (= (sl_arr " + rs[0] + ") 0) (> (sl_arr " + rs[0] + ") " + allocBefore + "))")
		} else if res.Type().String() == "error" {
			t.libErrorFact(rs[0])
		}
	}
	// trusted library fact: errors.As / errors.Is report false for a nil error
	if (name == "errors.As" || name == "errors.Is") && len(rs) == 1 && len(cc.Args) == 2 {
		t.assume(implies("(= (itag "+t.val(cc.Args[0])+") 0)", not(rs[0])))
	}
}

func (t *fnTrans) unknownCall(in ssa.Instruction, cc *ssa.CallCommon, res ssa.Value) {
	t.uncontracted["funcvalue "+t.describe(cc.Value)] = true
	preSt := t.cur
	t.havocVars(true, nil)
	t.ownFrame(preSt, cc.Args)
	t.freshResults(res, nameOf(res, "r"))
}

// ---- builtins ---------------------------------------------------------------------------

func (t *fnTrans) builtin(in ssa.Instruction, b *ssa.Builtin, cc *ssa.CallCommon, res ssa.Value) {
	switch b.Name() {
	case "len":
		x := t.val(cc.Args[0])
		switch u := cc.Args[0].Type().Underlying().(type) {
		case *types.Slice:
			t.setVal(res, "(sl_len "+x+")")
		case *types.Basic:
			r := t.setVal(res, "(str_len "+x+")")
			t.assume("(<= 0 " + r + ")")
		case *types.Map:
			_, _, ln := t.mapHVs(u)
			t.guardMap(cc.Args[0], false, in.Pos())
			r := t.setVal(res, sel(t.h.get(t.cur, ln), x))
			t.assume("(<= 0 " + r + ")")
			// len == 0 <=> empty domain is not derivable without cardinality; expose one direction lazily
		case *types.Chan:
			r := t.freshVal(res)
			t.assume(fmt.Sprintf("(and (<= 0 %s) (<= %s (chan_cap %s)))", r, r, x))
		case *types.Array:
			t.setVal(res, fmt.Sprint(u.Len()))
		case *types.Pointer:
			t.setVal(res, fmt.Sprint(u.Elem().Underlying().(*types.Array).Len()))
		default:
			t.freshVal(res)
		}
	case "cap":
		x := t.val(cc.Args[0])
		switch cc.Args[0].Type().Underlying().(type) {
		case *types.Slice:
			t.setVal(res, "(sl_cap "+x+")")
		case *types.Chan:
			r := t.setVal(res, "(chan_cap "+x+")")
			t.assume("(<= 0 " + r + ")")
		default:
			t.freshVal(res)
		}
	case "append":
		t.appendBuiltin(in, cc, res)
	case "copy":
		t.copyBuiltin(in, cc, res)
	case "delete":
		x := t.val(cc.Args[0])
		k := t.val(cc.Args[1])
		m := cc.Args[0].Type().Underlying().(*types.Map)
		dom, _, ln := t.mapHVs(m)
		t.guardMap(cc.Args[0], true, in.Pos())
		d := t.h.get(t.cur, dom)
		was := sel(sel(d, x), k)
		l := t.h.get(t.cur, ln)
		t.h.set(t.cur, ln, store(l, x, "(- "+sel(l, x)+" "+ite(was, "1", "0")+")"))
		t.h.set(t.cur, dom, store(d, x, store(sel(d, x), k, "false")))
	case "close":
		x := t.val(cc.Args[0])
		cl := t.h.get(t.cur, "chclosed")
		if t.chanNeverClosed(cc.Args[0]) {
			t.oblige("safe.close", "neverclosed:"+t.describe(cc.Args[0]), in.Pos(), "false", "close of a channel declared never_closed")
		}
		alts := t.tokCloseGrants(x)
		// nil part: same trust policy as for dereferences (fields not declared nullable)
		t.nilCheck(cc.Args[0], x, in.Pos(), "close")
		t.oblige("safe.close", "close:"+t.describe(cc.Args[0]), in.Pos(), not(sel(cl, x)), "close of a closed channel panics")
		t.tokClose(in, cc.Args[0], x, alts)
		t.h.set(t.cur, "chclosed", store(cl, x, "true"))
		t.event("closed", x, "")
	case "panic":
		t.oblige("safe.panic", "panic", in.Pos(), "false", "explicit panic reachable")
		t.cur.reach = "false"
	case "min", "max":
		x, y := t.val(cc.Args[0]), t.val(cc.Args[1])
		if b.Name() == "min" {
			t.setVal(res, ite("(<= "+x+" "+y+")", x, y))
		} else {
			t.setVal(res, ite("(>= "+x+" "+y+")", x, y))
		}
	case "print", "println":
	case "recover":
		t.freshVal(res)
	default:
		t.abstract("builtin " + b.Name())
		if res != nil {
			t.freshResults(res, res.Name())
		}
	}
}

// append(s, elems...) exactly, including the in-place case.
func (t *fnTrans) appendBuiltin(in ssa.Instruction, cc *ssa.CallCommon, res ssa.Value) {
	s := t.val(cc.Args[0])
	sl := cc.Args[0].Type().Underlying().(*types.Slice)
	hv := t.elemHV(sl.Elem())
	es := t.sortOf(sl.Elem())
	var srcArr, srcOff, n string
	a1 := cc.Args[1]
	if bt, ok := a1.Type().Underlying().(*types.Basic); ok && bt.Info()&types.IsString != 0 {
		x := t.val(a1)
		srcArr = "(str_bytes " + x + ")"
		srcOff = "0"
		n = "(str_len " + x + ")"
	} else {
		x := t.val(a1)
		srcArr = sel(t.h.get(t.cur, hv), "(sl_arr "+x+")")
		srcOff = "(sl_off " + x + ")"
		n = "(sl_len " + x + ")"
	}
	srcN := t.c.define(t.c.fresh("app.src"), "(Array Int "+es+")", srcArr)
	nN := t.c.define(t.c.fresh("app.n"), "Int", n)
	newLen := t.c.define(t.c.fresh("app.len"), "Int", "(+ (sl_len "+s+") "+nN+")")
	fits := t.c.define(t.c.fresh("app.fits"), "Bool", "(<= "+newLen+" (sl_cap "+s+"))")
	// fresh array for the reallocating case
	old := t.h.get(t.cur, hv)
	newArr := t.c.declare(t.c.fresh("app.arr"), "Int")
	t.assume("(> " + newArr + " " + t.h.get(t.cur, "alloc") + ")")
	t.h.set(t.cur, "alloc", newArr)
	newCap := t.c.declare(t.c.fresh("app.cap"), "Int")
	t.assume("(>= " + newCap + " " + newLen + ")")
	// destination contents: result array R satisfies
	//   in place:   R = old[arr] except R[off+len+j] = src[srcOff+j] for 0<=j<n
	//   realloc:    R[j] = old[arr][off+j] for j<len ; R[len+j] = src[srcOff+j]
	R := t.c.declare(t.c.fresh("app.R"), "(Array Int "+es+")")
	j := q(t.c.fresh("j"))
	dstArr := sel(old, "(sl_arr "+s+")")
	inplace := fmt.Sprintf("(forall ((%s Int)) (! (= (select %s %s) (ite (and (<= (+ (sl_off %s) (sl_len %s)) %s) (< %s (+ (sl_off %s) %s))) (select %s (+ %s (- %s (+ (sl_off %s) (sl_len %s))))) (select %s %s))) :pattern ((select %s %s))))",
		j, R, j, s, s, j, j, s, newLen, srcN, srcOff, j, s, s, dstArr, j, R, j)
	realloc := fmt.Sprintf("(forall ((%s Int)) (! (=> (and (<= 0 %s) (< %s %s)) (= (select %s %s) (ite (< %s (sl_len %s)) (select %s (+ (sl_off %s) %s)) (select %s (+ %s (- %s (sl_len %s))))))) :pattern ((select %s %s))))",
		j, j, j, newLen, R, j, j, s, dstArr, s, j, srcN, srcOff, j, s, R, j)
	// small constant n: unroll instead of quantifying (keeps most goals quantifier-free)
	if k, ok := t.smallConstLen(cc.Args[1]); ok && k <= 8 {
		ip := dstArr
		ra := "((as const (Array Int " + es + ")) " + t.g.zero(t.c, sl.Elem()) + ")"
		_ = ra
		for i := 0; i < k; i++ {
			ip = store(ip, fmt.Sprintf("(+ (sl_off %s) (sl_len %s) %d)", s, s, i), sel(srcN, fmt.Sprintf("(+ %s %d)", srcOff, i)))
		}
		t.assume(implies(fits, eq(R, ip)))
		t.assume(implies(not(fits), realloc))
	} else {
		t.assume(ite(fits, inplace, realloc))
	}
	resArr := ite(fits, "(sl_arr "+s+")", newArr)
	resOff := ite(fits, "(sl_off "+s+")", "0")
	resCap := ite(fits, "(sl_cap "+s+")", newCap)
	t.h.set(t.cur, hv, store(old, resArr, R))
	t.setVal(res, fmt.Sprintf("(mk_slice %s %s %s %s)", resArr, resOff, newLen, resCap))
	t.ghostAllocIf(not(fits), newCap, in.Pos())
}

func (t *fnTrans) smallConstLen(v ssa.Value) (int, bool) {
	// slice expression x[:k] / x[a:b] with constant bounds, or make([]T, k)
	switch s := v.(type) {
	case *ssa.Slice:
		lo := int64(0)
		if s.Low != nil {
			l, ok := constInt(s.Low)
			if !ok {
				return 0, false
			}
			lo = l
		}
		if s.High != nil {
			if h, ok := constInt(s.High); ok {
				return int(h - lo), true
			}
		}
	case *ssa.MakeSlice:
		if n, ok := constInt(s.Len); ok {
			return int(n), true
		}
	}
	return 0, false
}

func (t *fnTrans) copyBuiltin(in ssa.Instruction, cc *ssa.CallCommon, res ssa.Value) {
	d := t.val(cc.Args[0])
	sl := cc.Args[0].Type().Underlying().(*types.Slice)
	hv := t.elemHV(sl.Elem())
	es := t.sortOf(sl.Elem())
	var srcArr, srcOff, sn string
	if bt, ok := cc.Args[1].Type().Underlying().(*types.Basic); ok && bt.Info()&types.IsString != 0 {
		x := t.val(cc.Args[1])
		srcArr, srcOff, sn = "(str_bytes "+x+")", "0", "(str_len "+x+")"
	} else {
		x := t.val(cc.Args[1])
		srcArr, srcOff, sn = sel(t.h.get(t.cur, hv), "(sl_arr "+x+")"), "(sl_off "+x+")", "(sl_len "+x+")"
	}
	n := t.c.define(t.c.fresh("copy.n"), "Int", ite("(<= (sl_len "+d+") "+sn+")", "(sl_len "+d+")", sn))
	srcN := t.c.define(t.c.fresh("copy.src"), "(Array Int "+es+")", srcArr)
	old := t.h.get(t.cur, hv)
	R := t.c.declare(t.c.fresh("copy.R"), "(Array Int "+es+")")
	j := q(t.c.fresh("j"))
	dstArr := sel(old, "(sl_arr "+d+")")
	t.assume(fmt.Sprintf("(forall ((%s Int)) (! (= (select %s %s) (ite (and (<= (sl_off %s) %s) (< %s (+ (sl_off %s) %s))) (select %s (+ %s (- %s (sl_off %s)))) (select %s %s))) :pattern ((select %s %s))))",
		j, R, j, d, j, j, d, n, srcN, srcOff, j, d, dstArr, j, R, j))
	t.h.set(t.cur, hv, store(old, "(sl_arr "+d+")", R))
	if res != nil {
		t.setVal(res, n)
	}
}

// ---- locks ----------------------------------------------------------------------------------

// lockKey returns the ghost key of a mutex argument and the "Type.field" name.
func (t *fnTrans) lockKey(v ssa.Value) (term string, field string) {
	term = t.val(v)
	switch a := v.(type) {
	case *ssa.FieldAddr:
		pt := a.X.Type().Underlying().(*types.Pointer)
		st := pt.Elem().Underlying().(*types.Struct)
		field = t.g.typeKey(pt.Elem()) + "." + st.Field(a.Field).Name()
	case *ssa.Global:
		field = "global." + a.Name()
	default:
		field = "?"
	}
	return
}

func (t *fnTrans) heldGet(k string) string  { return sel(t.h.get(t.cur, "held"), k) }
func (t *fnTrans) rheldGet(k string) string { return sel(t.h.get(t.cur, "rheld"), k) }

func (t *fnTrans) lockName(v ssa.Value) string {
	switch a := v.(type) {
	case *ssa.FieldAddr:
		pt := a.X.Type().Underlying().(*types.Pointer)
		st := pt.Elem().Underlying().(*types.Struct)
		return t.describe(a.X) + "." + st.Field(a.Field).Name()
	}
	return t.describe(v)
}

func (t *fnTrans) mLock(in ssa.Instruction, cc *ssa.CallCommon, res ssa.Value) bool {
	k, field := t.lockKey(cc.Args[0])
	nm := t.lockName(cc.Args[0])
	t.oblige("lock.relock", "lock:"+nm, in.Pos(), and(not(t.heldGet(k)), not(t.rheldGet(k))), "Lock of a mutex this goroutine already holds (self-deadlock)")
	t.lockOrder(in, k, field, nm)
	t.lockKeys = append(t.lockKeys, lockKeyRef{k, field})
	t.h.set(t.cur, "held", store(t.h.get(t.cur, "held"), k, "true"))
	t.acquireEffects(cc.Args[0], field)
	return true
}

func (t *fnTrans) mRLock(in ssa.Instruction, cc *ssa.CallCommon, res ssa.Value) bool {
	k, field := t.lockKey(cc.Args[0])
	nm := t.lockName(cc.Args[0])
	t.oblige("lock.relock", "rlock:"+nm, in.Pos(), not(t.heldGet(k)), "RLock while holding the write lock")
	t.lockOrder(in, k, field, nm)
	t.h.set(t.cur, "rheld", store(t.h.get(t.cur, "rheld"), k, "true"))
	t.acquireEffects(cc.Args[0], field)
	return true
}

func (t *fnTrans) mUnlock(in ssa.Instruction, cc *ssa.CallCommon, res ssa.Value) bool {
	k, field := t.lockKey(cc.Args[0])
	nm := t.lockName(cc.Args[0])
	t.oblige("lock.unheld", "unlock:"+nm, in.Pos(), t.heldGet(k), "Unlock of a mutex that is not held")
	t.tokRelease(k, in.Pos(), "unlock:"+nm)
	t.releaseEffects(in, cc.Args[0], field, nm)
	t.h.set(t.cur, "held", store(t.h.get(t.cur, "held"), k, "false"))
	return true
}

func (t *fnTrans) mRUnlock(in ssa.Instruction, cc *ssa.CallCommon, res ssa.Value) bool {
	k, _ := t.lockKey(cc.Args[0])
	nm := t.lockName(cc.Args[0])
	t.oblige("lock.unheld", "runlock:"+nm, in.Pos(), t.rheldGet(k), "RUnlock of a mutex that is not read-held")
	t.h.set(t.cur, "rheld", store(t.h.get(t.cur, "rheld"), k, "false"))
	return true
}

// acquireEffects: other goroutines may have changed everything the lock guards.
func (t *fnTrans) acquireEffects(mu ssa.Value, field string) {
	fa, ok := mu.(*ssa.FieldAddr)
	if !ok {
		// global mutex
		for _, hv := range t.g.ann.guardedVars(field) {
			if _, known := t.h.sorts[hv]; known {
				t.h.set(t.cur, hv, t.c.declare(t.c.fresh(hv), t.h.sortOfVar(hv)))
			}
		}
		return
	}
	if t.local[fa.X] {
		return // object still private
	}
	base := t.val(fa.X)
	for _, gf := range t.g.ann.guardedFields(field) {
		hv := gf.hv
		if sa := t.g.ann.structs[gf.owner]; sa != nil {
			if fa := sa.fields[gf.field]; fa != nil && fa.writer != "" && (t.fn.Name() == fa.writer || strings.HasPrefix(t.fn.Name(), fa.writer+"$")) {
				continue // only this function writes the field: no interference to model
			}
		}
		srt, known := t.h.sorts[hv]
		if !known {
			// register lazily from type info
			srt = t.g.ann.sortOfGuarded(t, gf)
			if srt == "" {
				continue
			}
			t.h.reg(hv, srt)
		}
		if gf.own {
			elem := strings.TrimSuffix(strings.TrimPrefix(srt, "(Array Int "), ")")
			nv := t.c.declare(t.c.fresh("hv."+gf.field), elem)
			t.h.set(t.cur, hv, store(t.h.get(t.cur, hv), base, nv))
		} else {
			t.h.set(t.cur, hv, t.c.declare(t.c.fresh(hv), srt))
		}
	}
	t.monitorAssume(fa, field)
}

func (t *fnTrans) mCondWait(in ssa.Instruction, cc *ssa.CallCommon, res ssa.Value) bool {
	// the lock used by a cond comes from the struct annotation `cond <field> uses <lock path>`
	k, field, muVal, ok := t.condLock(cc.Args[0])
	nm := t.describe(cc.Args[0])
	if !ok {
		t.abstract("cond.Wait on unannotated cond " + nm)
		t.havocVars(true, nil)
		return true
	}
	t.oblige("lock.condwait", "wait:"+nm, in.Pos(), t.heldGet(k), "cond.Wait without holding its lock")
	// nothing else may be held while waiting
	t.blockCheckExcept(in.Pos(), "wait:"+nm, k)
	t.tokRelease(k, in.Pos(), "wait:"+nm)
	t.releaseEffectsKey(in, muVal, field, nm)
	// re-acquire
	t.acquireEffectsKey(muVal, field)
	return true
}

func (t *fnTrans) mBroadcast(in ssa.Instruction, cc *ssa.CallCommon, res ssa.Value) bool {
	t.event("broadcast", t.val(cc.Args[0]), "")
	return true
}

// blockCheck: a potentially blocking operation must not run with a lock held.
func (t *fnTrans) blockCheck(pos token.Pos, what string) {
	t.blockCheckExcept(pos, what, "")
}

func (t *fnTrans) blockCheckExcept(pos token.Pos, what string, except string) {
	held := t.h.get(t.cur, "held")
	rheld := t.h.get(t.cur, "rheld")
	kq := q(t.c.fresh("k"))
	body := fmt.Sprintf("(and (not (select %s %s)) (not (select %s %s)))", held, kq, rheld, kq)
	if except != "" {
		body = fmt.Sprintf("(or (= %s %s) %s)", kq, except, body)
	}
	t.oblige("lock.block", "block:"+what, pos, fmt.Sprintf("(forall ((%s Int)) %s)", kq, body), "blocking operation while holding a lock")
}

// ---- time / atomic / bytes models --------------------------------------------------------

func (t *fnTrans) mTimeAfter(in ssa.Instruction, cc *ssa.CallCommon, res ssa.Value) bool {
	d := t.val(cc.Args[0])
	r := t.newRef(nameOf(res, "after"))
	t.vals[res] = []string{r}
	f := t.c.declareFun("timer_d", []string{"Int"}, "Int")
	t.assume("(= (" + f + " " + r + ") " + d + ")")
	t.assume("(= (chan_cap " + r + ") 1)")
	return true
}

func (t *fnTrans) mAfterFunc(in ssa.Instruction, cc *ssa.CallCommon, res ssa.Value) bool {
	d := t.val(cc.Args[0])
	r := t.newRef(nameOf(res, "timer"))
	if res != nil {
		t.vals[res] = []string{r}
	}
	f := t.c.declareFun("timer_d", []string{"Int"}, "Int")
	t.assume("(= (" + f + " " + r + ") " + d + ")")
	fnv := t.val(cc.Args[1])
	ff := t.c.declareFun("timer_fn", []string{"Int"}, "Int")
	t.assume("(= (" + ff + " " + r + ") " + fnv + ")")
	t.event("armed", r, d)
	t.spawnHook(in, cc.Args[1], nil, "afterfunc")
	return true
}

func (t *fnTrans) mTimerStop(in ssa.Instruction, cc *ssa.CallCommon, res ssa.Value) bool {
	x := t.val(cc.Args[0])
	t.nilCheck(cc.Args[0], x, in.Pos(), "timer")
	t.event("stopped", x, "")
	t.freshResults(res, nameOf(res, "stop"))
	return true
}

func (t *fnTrans) mAtomicAdd(in ssa.Instruction, cc *ssa.CallCommon, res ssa.Value) bool {
	l := t.locOf(cc.Args[0])
	t.atomicAccess(l, in.Pos())
	old := t.load(l)
	pt := cc.Args[0].Type().Underlying().(*types.Pointer)
	t.assumeType(old, pt.Elem())
	nv := t.wrapSum("(+ "+old+" "+t.val(cc.Args[1])+")", pt.Elem())
	n := t.setVal(res, nv)
	t.storeLoc(l, n)
	return true
}

// wrapSum: two's-complement wrap of the sum of two values of integer type ty.  Both operands are
// values of that Go type, so the sum is off by at most one modulus: a conditional instead of
// `mod` (which the solvers answer `unknown` on as soon as quantified invariants are around).
func (t *fnTrans) wrapSum(e string, ty types.Type) string {
	bits, uns, ok := intBits(ty)
	if !ok || bits >= 64 {
		return t.wrapAny(e, ty)
	}
	m := pow2(bits)
	if uns {
		return "(ite (>= " + e + " " + m + ") (- " + e + " " + m + ") (ite (< " + e + " 0) (+ " + e + " " + m + ") " + e + "))"
	}
	h := pow2(bits - 1)
	return "(ite (>= " + e + " " + h + ") (- " + e + " " + m + ") (ite (< " + e + " (- " + h + ")) (+ " + e + " " + m + ") " + e + "))"
}

func (t *fnTrans) wrapAny(e string, ty types.Type) string {
	bits, uns, ok := intBits(ty)
	if !ok {
		return e
	}
	if uns {
		return "(mod " + e + " " + pow2(bits) + ")"
	}
	if bits < 64 {
		h := pow2(bits - 1)
		return "(- (mod (+ " + e + " " + h + ") " + pow2(bits) + ") " + h + ")"
	}
	return e
}

func (t *fnTrans) mAtomicLoad(in ssa.Instruction, cc *ssa.CallCommon, res ssa.Value) bool {
	l := t.locOf(cc.Args[0])
	t.atomicAccess(l, in.Pos())
	v := t.setVal(res, t.load(l))
	t.assumeType(v, res.Type())
	return true
}

func (t *fnTrans) mAtomicStore(in ssa.Instruction, cc *ssa.CallCommon, res ssa.Value) bool {
	l := t.locOf(cc.Args[0])
	t.atomicAccess(l, in.Pos())
	t.storeLoc(l, t.val(cc.Args[1]))
	return true
}

func (t *fnTrans) mBEGet(in ssa.Instruction, cc *ssa.CallCommon, res ssa.Value) bool {
	callee := t.g.staticCallee(cc)
	nb := map[string]int{"Uint16": 2, "Uint32": 4, "Uint64": 8}[callee.Name()]
	b := t.val(cc.Args[len(cc.Args)-1])
	t.oblige("safe.index", "be:"+callee.Name()+":"+t.describe(cc.Args[len(cc.Args)-1]), in.Pos(), fmt.Sprintf("(<= %d (sl_len %s))", nb, b), "binary.BigEndian on a short slice panics")
	arr := sel(t.h.get(t.cur, "E:Int"), "(sl_arr "+b+")")
	fn := map[int]string{2: "be16", 4: "be32", 8: "be64"}[nb]
	v := t.setVal(res, "("+fn+" "+arr+" (sl_off "+b+"))")
	t.beByteRanges(arr, "(sl_off "+b+")", nb)
	_ = v
	return true
}

func (t *fnTrans) beByteRanges(arr, off string, n int) {
	for i := 0; i < n; i++ {
		e := sel(arr, fmt.Sprintf("(+ %s %d)", off, i))
		t.assume("(and (<= 0 " + e + ") (<= " + e + " 255))")
	}
}

func (t *fnTrans) mBEPut(in ssa.Instruction, cc *ssa.CallCommon, res ssa.Value) bool {
	callee := t.g.staticCallee(cc)
	nb := map[string]int{"PutUint16": 2, "PutUint32": 4, "PutUint64": 8}[callee.Name()]
	b := t.val(cc.Args[len(cc.Args)-2])
	v := t.val(cc.Args[len(cc.Args)-1])
	t.oblige("safe.index", "be:"+callee.Name()+":"+t.describe(cc.Args[len(cc.Args)-2]), in.Pos(), fmt.Sprintf("(<= %d (sl_len %s))", nb, b), "binary.BigEndian on a short slice panics")
	t.h.reg("E:Int", "(Array Int (Array Int Int))")
	e := t.h.get(t.cur, "E:Int")
	arr := sel(e, "(sl_arr "+b+")")
	na := arr
	for i := 0; i < nb; i++ {
		shift := pow2(8 * (nb - 1 - i))
		na = store(na, fmt.Sprintf("(+ (sl_off %s) %d)", b, i), "(mod (div "+v+" "+shift+") 256)")
	}
	naN := t.c.define(t.c.fresh("be.arr"), "(Array Int Int)", na)
	t.h.set(t.cur, "E:Int", store(e, "(sl_arr "+b+")", naN))
	// hint: decoding the bytes just written gives back v (lemma spec/lemmas/be_roundtrip.smt2, proved separately)
	fn := map[int]string{2: "be16", 4: "be32", 8: "be64"}[nb]
	t.assume(implies(fmt.Sprintf("(and (<= 0 %s) (< %s %s))", v, v, pow2(8*nb)), fmt.Sprintf("(= (%s %s (sl_off %s)) %s)", fn, naN, b, v)))
	return true
}

// bytes.HasPrefix(s, p) <=> len(p) <= len(s) && forall j < len(p). s[j] == p[j]   (trusted contract)
func (t *fnTrans) mHasPrefix(in ssa.Instruction, cc *ssa.CallCommon, res ssa.Value) bool {
	s, p := t.val(cc.Args[0]), t.val(cc.Args[1])
	t.h.reg("E:Int", "(Array Int (Array Int Int))")
	e := t.h.get(t.cur, "E:Int")
	fn := "isprefix"
	t.setVal(res, fmt.Sprintf("(%s %s (sl_off %s) (sl_len %s) %s (sl_off %s) (sl_len %s))", fn, sel(e, "(sl_arr "+p+")"), p, p, sel(e, "(sl_arr "+s+")"), s, s))
	return true
}

func (t *fnTrans) mBytesEqual(in ssa.Instruction, cc *ssa.CallCommon, res ssa.Value) bool {
	a, b := t.val(cc.Args[0]), t.val(cc.Args[1])
	t.h.reg("E:Int", "(Array Int (Array Int Int))")
	e := t.h.get(t.cur, "E:Int")
	fn := "byteseq"
	t.setVal(res, fmt.Sprintf("(%s %s (sl_off %s) (sl_len %s) %s (sl_off %s) (sl_len %s))", fn, sel(e, "(sl_arr "+a+")"), a, a, sel(e, "(sl_arr "+b+")"), b, b))
	return true
}

// ---- channels ---------------------------------------------------------------------------------

func (t *fnTrans) chanName(v ssa.Value) string {
	return t.describe(v)
}

func (t *fnTrans) send(in *ssa.Send) {
	ch := t.val(in.Chan)
	x := t.val(in.X)
	nm := t.chanName(in.Chan)
	site := t.sites[in]
	if site != "" {
		t.siteBefore(site, in, nil)
	}
	t.blockCheckSend(in, ch, nm)
	t.oblige("safe.sendclosed", "send:"+nm, in.Pos(), not(sel(t.h.get(t.cur, "chclosed"), ch)), "send on closed channel panics")
	t.elemInvAssert(in, in.Chan, x, in.X.Type(), "true")
	t.ownSendHook(in, in.X, x, "true")
	t.event("sent", ch, x)
	if site != "" {
		t.siteAfter(site, in, nil, nil)
	}
}

// a plain send blocks unless the channel is known to have room; under a lock
// it must be proved non-blocking (DESIGN §2.4 item 5)
func (t *fnTrans) blockCheckSend(in *ssa.Send, ch, nm string) {
	t.blockCheck(in.Pos(), "send:"+nm)
}

func (t *fnTrans) recv(in *ssa.UnOp) {
	ch := t.val(in.X)
	nm := t.chanName(in.X)
	t.blockCheck(in.Pos(), "recv:"+nm)
	elem := in.X.Type().Underlying().(*types.Chan).Elem()
	if in.CommaOk {
		ok := t.c.declare(t.c.fresh(in.Name()+".ok"), "Bool")
		v := t.freshOf(in.Name()+".v", elem)
		t.vals[in] = []string{v, ok}
		t.assume(implies(not(ok), eq(v, t.g.zero(t.c, elem))))
		t.ownRecvHook(in, v, elem)
		t.elemInvAssume(in.X, v, elem, ok)
		return
	}
	v := t.freshVal(in)
	t.ownRecvHook(in, v, elem)
	t.elemInvAssume(in.X, v, elem, "true")
	_ = ch
}

func (t *fnTrans) selectInstr(in *ssa.Select) {
	n := len(in.States)
	idx := t.c.declare(t.c.fresh(in.Name()+".idx"), "Int")
	lo := "0"
	if !in.Blocking {
		lo = "(- 1)"
	}
	t.assume(fmt.Sprintf("(and (<= %s %s) (< %s %d))", lo, idx, idx, n))
	if in.Blocking {
		t.blockCheck(in.Pos(), "select")
	}
	site := t.sites[in]
	var cases []selCase
	for _, st := range in.States {
		cases = append(cases, selCase{send: st.Dir == types.SendOnly, ch: t.val(st.Chan), desc: t.describe(st.Chan)})
	}
	t.curSel = cases
	if site != "" {
		if t.selCases == nil {
			t.selCases = map[string][]selCase{}
		}
		t.selCases[site] = cases
		t.siteBefore(site, in, nil)
	}
	t.lastSel = idx
	if st := t.sites[in]; st != "" {
		t.selIdx[st] = idx
		hv := t.h.reg("ghost:sel:"+st, "Int")
		t.h.set(t.cur, hv, idx)
	}
	recvOk := t.c.declare(t.c.fresh(in.Name()+".ok"), "Bool")
	out := []string{idx, recvOk}
	for k, st := range in.States {
		ch := t.val(st.Chan)
		fired := fmt.Sprintf("(= %s %d)", idx, k)
		// a nil channel is never ready
		t.assume(implies(fired, "(not (= "+ch+" 0))"))
		if st.Dir == types.SendOnly {
			x := t.val(st.Send)
			// sending on a closed channel panics
			save := t.cur.reach
			t.cur.reach = and(save, fired)
			t.oblige("safe.sendclosed", "select.send:"+t.chanName(st.Chan), in.Pos(), not(sel(t.h.get(t.cur, "chclosed"), ch)), "send on closed channel panics")
			t.cur.reach = save
			t.elemInvAssert(in, st.Chan, x, st.Send.Type(), fired)
			t.ownSendHook(in, st.Send, x, fired)
			t.eventIf(fired, "sent", ch, x)
		} else {
			elem := st.Chan.Type().Underlying().(*types.Chan).Elem()
			v := t.freshOf(fmt.Sprintf("%s.r%d", in.Name(), k), elem)
			out = append(out, v)
			// a receive from a closed channel yields the zero value
			t.assume(implies(and(fired, not(recvOk)), eq(v, t.g.zero(t.c, elem))))
			t.ownRecvHookIf(in, fired, v, elem)
			if t.chanNeverClosed(st.Chan) {
				t.elemInvAssume(st.Chan, v, elem, fired)
			} else {
				t.elemInvAssume(st.Chan, v, elem, and(fired, recvOk))
			}
			t.eventIf(fired, "fired", ch, "")
		}
	}
	t.vals[in] = out
	if site != "" {
		t.siteAfter(site, in, nil, nil)
	}
}

type selCase struct {
	send bool
	ch   string
	desc string
}

func (t *fnTrans) goStmt(in *ssa.Go) {
	cc := in.Common()
	site := t.sites[in]
	if site != "" {
		t.siteBefore(site, in, cc)
	}
	t.spawnHook(in, cc.Value, cc, "go")
	if site != "" {
		t.siteAfter(site, in, cc, nil)
	}
}

func sortedKeys(m map[string]bool) []string {
	var out []string
	for k := range m {
		out = append(out, k)
	}
	sort.Strings(out)
	return out
}


func (t *fnTrans) mRandFloat(in ssa.Instruction, cc *ssa.CallCommon, res ssa.Value) bool {
	r := t.freshResults(res, nameOf(res, "rnd"))
	if len(r) == 1 {
		t.assume("(and (<= 0.0 " + r[0] + ") (< " + r[0] + " 1.0))")
	}
	return true
}


// strconv.IsPrint on a byte-ranged rune: the table is evaluated from the real
// library when govc runs and supplied as the definition of isprint (assumption).
func isprintDef() string {
	var ranges []string
	start := -1
	for b := 0; b <= 256; b++ {
		p := b < 256 && strconv.IsPrint(rune(b))
		if p && start < 0 {
			start = b
		}
		if !p && start >= 0 {
			ranges = append(ranges, fmt.Sprintf("(and (<= %d b) (<= b %d))", start, b-1))
			start = -1
		}
	}
	return "(define-fun isprint ((b Int)) Bool (or " + strings.Join(ranges, " ") + "))\n"
}

// strings.Index(s, sub): trusted library fact -- -1, or a position at which sub fits into s.
func (t *fnTrans) mStringsIndex(in ssa.Instruction, cc *ssa.CallCommon, res ssa.Value) bool {
	x, sub := t.val(cc.Args[0]), t.val(cc.Args[1])
	r := t.freshResults(res, nameOf(res, "index"))
	t.assume("(or (= " + r[0] + " (- 1)) (and (<= 0 " + r[0] + ") (<= (+ " + r[0] + " (str_len " + sub + ")) (str_len " + x + "))))")
	return true
}

// strings.HasPrefix(s, p): trusted library fact -- a function of (s, p); when true, s is p followed by
// the rest of s (so stripping len(p) bytes and putting p back gives s).
func (t *fnTrans) mStrHasPrefix(in ssa.Instruction, cc *ssa.CallCommon, res ssa.Value) bool {
	x, p := t.val(cc.Args[0]), t.val(cc.Args[1])
	r := t.freshResults(res, nameOf(res, "hasprefix"))
	hp := t.c.declareFun("str_hasprefix", []string{"Str", "Str"}, "Bool")
	sub := t.c.declareFun("str_sub", []string{"Str", "Int", "Int"}, "Str")
	t.assume(eq(r[0], "("+hp+" "+x+" "+p+")"))
	rest := fmt.Sprintf("(%s %s (str_len %s) (str_len %s))", sub, x, p, x)
	t.assume(implies(r[0], fmt.Sprintf("(and (<= (str_len %s) (str_len %s)) (= (str_concat %s %s) %s) (= (str_len %s) (- (str_len %s) (str_len %s))))", p, x, p, rest, x, rest, x, p)))
	return true
}

// strings.TrimPrefix(s, p): s without the leading p when s has that prefix, else s.
func (t *fnTrans) mTrimPrefix(in ssa.Instruction, cc *ssa.CallCommon, res ssa.Value) bool {
	x, p := t.val(cc.Args[0]), t.val(cc.Args[1])
	r := t.freshResults(res, nameOf(res, "trimprefix"))
	hp := t.c.declareFun("str_hasprefix", []string{"Str", "Str"}, "Bool")
	has := "(" + hp + " " + x + " " + p + ")"
	t.assume(fmt.Sprintf("(ite %s (and (= (str_concat %s %s) %s) (= (str_len %s) (- (str_len %s) (str_len %s)))) (= %s %s))", has, p, r[0], x, r[0], x, p, r[0], x))
	return true
}

func (t *fnTrans) mIsPrint(in ssa.Instruction, cc *ssa.CallCommon, res ssa.Value) bool {
	x := t.val(cc.Args[0])
	r := t.freshResults(res, nameOf(res, "isprint"))
	// only for byte-ranged arguments is the table complete
	t.assume(implies("(and (<= 0 "+x+") (<= "+x+" 255))", eq(r[0], "(isprint "+x+")")))
	return true
}


// strconv.Atoi(s): trusted library contract over two uninterpreted spec functions --
// atoi_ok(s) "s is an optionally signed decimal integer in int range" and atoi_val(s) its value.
func (t *fnTrans) mAtoi(in ssa.Instruction, cc *ssa.CallCommon, res ssa.Value) bool {
	x := t.val(cc.Args[0])
	r := t.freshResults(res, nameOf(res, "atoi"))
	if len(r) != 2 {
		return true
	}
	t.assume(eq("(= (itag "+r[1]+") 0)", "(atoi_ok "+x+")"))
	t.assume(implies("(atoi_ok "+x+")", eq(r[0], "(atoi_val "+x+")")))
	t.assume(implies("(not (atoi_ok "+x+"))", eq(r[0], "0")))
	t.assume("(and (<= (- 9223372036854775808) (atoi_val " + x + ")) (<= (atoi_val " + x + ") 9223372036854775807))")
	t.libErrorFact(r[1])
	return true
}

// errors.New / fmt.Errorf return a non-nil error that is not one of mangos' constants.
func (t *fnTrans) mNewError(in ssa.Instruction, cc *ssa.CallCommon, res ssa.Value) bool {
	r := t.freshResults(res, nameOf(res, "err"))
	if len(r) == 1 {
		t.assume("(not (= (itag " + r[0] + ") 0))")
		t.libErrorFact(r[0])
	}
	return true
}

// isSyncType: sync.Mutex / RWMutex / Once / Cond / WaitGroup / Pool and atomic values synchronise themselves
func isSyncType(ty types.Type) bool {
	if n, ok := types.Unalias(ty).(*types.Named); ok && n.Obj().Pkg() != nil {
		switch n.Obj().Pkg().Path() {
		case "sync", "sync/atomic":
			return true
		}
	}
	return false
}
