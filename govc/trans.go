package main

import (
	"fmt"
	"go/constant"
	"go/token"
	"go/types"
	"sort"
	"strings"

	"golang.org/x/tools/go/packages"
	"golang.org/x/tools/go/ssa"
)

type Gen struct {
	prog      *ssa.Program
	pkgs      []*packages.Package
	spkgs     []*ssa.Package
	mod       string
	typeTags  map[string]int
	tagNames  map[int]string
	heapSorts map[string]string
	ann       *Annotations
	summaries map[*ssa.Function]*summary
	fieldTags map[string]int
	allFuncs  []*ssa.Function
	impls     map[string][]*ssa.Function // interface method key -> implementations in module
	ifaceImplCache map[*ssa.Function][]ifaceImpl
	canary    bool
	spawned   map[*ssa.Function]bool
	mutableGlobals map[string]bool
	globalStored   map[string]bool
	globalMaybeNil map[string]bool
	infoOf    map[*types.Package]*types.Info
	alias     map[string]map[string]string // fnKey -> contract name -> current name (renamed variables)
	storedLate map[string]bool
	snapFuncs map[string]bool // functions the contracts were written against (spec/funcs.json)
	inlOnly   map[*ssa.Function]bool
	plans     map[*ssa.Function]*inlPlan
	snapFields  map[string]map[string]bool // struct key -> fields that existed when the contracts were written
	newFieldAnn map[string]*fieldAnn
}

type locKind int

const (
	locField locKind = iota
	locElem
	locCell
	locGlobal
)

type loc struct {
	kind    locKind
	base    string // field: object ref; elem: array id; cell: ref
	idx     string // elem index (absolute, including slice offset)
	hv      string
	typ     types.Type // type of the stored thing
	owner   string     // field: type key of the struct
	fname   string
	baseVal ssa.Value
	ownerT  types.Type
	enc     *loc // the by-value struct field this place lies inside (d.d.KeepAlive lies inside dialer.d)
}

type deferred struct {
	instr *ssa.Defer
}

type fnTrans struct {
	g     *Gen
	fn    *ssa.Function
	key   string
	c     *FnCtx
	h     *HeapReg
	vals  map[ssa.Value][]string
	locs  map[ssa.Value]*loc
	cur   *State
	entry *State
	out   map[*ssa.BasicBlock]*State
	edge  map[[2]int]string // edge condition (excluding source reach)
	names map[string][]nameRef
	local map[ssa.Value]bool // objects allocated in this function (still private)
	tokLoads []*tokLoad
	tokByInstr map[*ssa.UnOp]*tokLoad
	tokMade  []string
	fnFact   map[string]bool
	curCallee string // static callee (function key) of the call whose before-clauses are being evaluated
	loops map[*ssa.BasicBlock]*loopInfo
	order []*ssa.BasicBlock
	contract *FuncContract
	closures map[ssa.Value]*ssa.MakeClosure
	foreignLocks []foreignLock
	sites    map[ssa.Instruction]string
	siteState map[string]*State
	abstracted []string
	uncontracted map[string]bool
	ghostRet  map[string]string
	stable    map[ssa.Value]string // cells written once: their value
	lastSel   string
	selIdx    map[string]string
	selCases  map[string][]selCase // select site -> its cases (channel terms evaluated before the select)
	curSel    []selCase
	ghostVals map[string]sval
	ghostUnreached map[string]sval // declared ghosts whose site is not on the path (arbitrary value)
	usedContracts map[string]bool
	lockKeys  []lockKeyRef
	quietSpec int
	condOwner *sval
	capturedBorrow map[ssa.Value]bool
	curBlock *ssa.BasicBlock
	rangeOf  map[ssa.Value]*ssa.Range
	frames   []*inlFrame // helpers being translated in place (inline.go)
	plan     *inlPlan
	inlined  map[string]bool
	paramArg map[*ssa.Parameter]ssa.Value
	loopOrds map[int]bool // flattened loop ordinals in use (caller + helpers translated in place)
	curNode  *inlNode     // the in-place instance being translated (the root: the function itself)
	allSites []siteEnt    // every site of every instance
}

type lockKeyRef struct{ term, field string }

type nameRef struct {
	v   ssa.Value
	blk *ssa.BasicBlock
	idx int
}

type loopInfo struct {
	header *ssa.BasicBlock
	blocks map[*ssa.BasicBlock]bool
	ord    int
	pos    token.Pos
}

func (g *Gen) fnKey(fn *ssa.Function) string {
	s := fn.String()
	s = strings.ReplaceAll(s, g.mod+"/", "")
	s = strings.ReplaceAll(s, g.mod, "mangos")
	return s
}

func (g *Gen) posStr(p token.Pos) string {
	if !p.IsValid() {
		return ""
	}
	ps := g.prog.Fset.Position(p)
	f := strings.TrimPrefix(ps.Filename, repoDir+"/")
	return fmt.Sprintf("%s:%d", f, ps.Line)
}

func (t *fnTrans) abstract(what string) {
	t.abstracted = append(t.abstracted, what)
}

// ---- obligations ----------------------------------------------------------

func (t *fnTrans) oblige(kind, disc string, pos token.Pos, goal string, note string) *Obligation {
	o := &Obligation{Kind: kind, Func: t.key, Name: strings.ReplaceAll(kind+":"+t.key+":"+disc, " ", "_"), Pos: t.g.posStr(pos), Goal: goal, Reach: t.cur.reach, Note: note}
	if goal == "true" || t.cur.reach == "false" {
		o.Trivial = true
	}
	o.posv = pos
	o.vkey = t.curVpos(pos)
	if !o.Trivial && !strings.HasPrefix(kind, "lock.") && !strings.HasPrefix(kind, "guard.") {
		o.Vars = t.visibleVars()
	}
	t.c.obls = append(t.c.obls, o)
	// continue under the assumption that the check passed -- except for guard
	// checks, whose goal is ghost lock state: assuming it would mask later
	// unguarded accesses in the same function.
	// When a failing check means the program does not continue (panic, fatal error,
	// self-deadlock) the assumption is operationally sound.  For every other kind it is
	// made conditional on a flag that is switched off when the obligation is not
	// discharged (runAll then re-solves the function), so that an unproved obligation
	// can never make a later one vacuously true.
	switch {
	case strings.HasPrefix(kind, "guard."):
	case panicKind(kind) || o.Trivial || kind == "canary" || kind == "cover":
		t.assume(goal)
	default:
		o.flag = t.c.fresh("A")
		t.c.define(o.flag, "Bool", "true")
		t.assume(implies(q(o.flag), goal))
	}
	return o
}

// panicKind: a failing obligation of this kind stops the execution (run-time panic, fatal
// error "unlock of unlocked mutex", self-deadlock), so later code may assume it held.
func panicKind(kind string) bool {
	return strings.HasPrefix(kind, "safe.") || kind == "lock.unheld" || kind == "lock.relock" || kind == "lock.condwait"
}

func (t *fnTrans) assume(a string) {
	if a == "true" {
		return
	}
	r := and(t.cur.reach, a)
	if len(r) > 60 {
		r = t.c.define(t.c.fresh("R"), "Bool", r)
	}
	t.cur.reach = r
}

// ---- values -----------------------------------------------------------------

func (t *fnTrans) sortOf(ty types.Type) string { return t.g.sortOf(t.c, ty) }

func (t *fnTrans) val(v ssa.Value) string {
	if x, ok := t.vals[v]; ok {
		return x[0]
	}
	switch v := v.(type) {
	case *ssa.Const:
		return t.constTerm(v)
	case *ssa.Global:
		n := "gaddr:" + t.g.relPkg(v.Pkg.Pkg.Path()) + "." + v.Name()
		return t.c.declare(n, "Int")
	case *ssa.Function:
		n := "fn:" + t.g.fnKey(v)
		d := t.c.declare(n, "Int")
		if !t.fnFact[n] {
			if t.fnFact == nil {
				t.fnFact = map[string]bool{}
			}
			t.fnFact[n] = true
			t.c.axiom("(not (= " + d + " 0))") // a function value is never nil
			t.c.axiom("(= (fnid " + d + ") " + nameTag("fn:"+t.g.fnKey(v)) + ")")
		}
		return d
	case *ssa.Builtin:
		return "0"
	}
	// value not yet defined (e.g. used across a cut back edge): unconstrained
	s := t.sortOf(v.Type())
	if s == "TUPLE" {
		panic("tuple value used before definition: " + v.Name())
	}
	n := t.c.declare(v.Name()+"?", s)
	t.vals[v] = []string{n}
	return n
}

func (t *fnTrans) tuple(v ssa.Value) []string {
	if x, ok := t.vals[v]; ok {
		return x
	}
	panic("tuple not defined: " + v.Name() + " in " + t.key)
}

func (t *fnTrans) constTerm(c *ssa.Const) string {
	ty := c.Type()
	if c.Value == nil {
		return t.g.zero(t.c, ty)
	}
	switch c.Value.Kind() {
	case constant.Bool:
		if constant.BoolVal(c.Value) {
			return "true"
		}
		return "false"
	case constant.String:
		s := constant.StringVal(c.Value)
		if s == "" {
			return "str_empty"
		}
		return t.c.strLit(s)
	case constant.Int:
		if b, ok := ty.Underlying().(*types.Basic); ok && b.Info()&types.IsFloat != 0 {
			return c.Value.ExactString() + ".0"
		}
		s := c.Value.ExactString()
		if strings.HasPrefix(s, "-") {
			return "(- " + s[1:] + ")"
		}
		return s
	case constant.Float:
		f, _ := constant.Float64Val(c.Value)
		s := fmt.Sprintf("%.12f", f)
		if strings.HasPrefix(s, "-") {
			return "(- " + s[1:] + ")"
		}
		return s
	}
	t.abstract("const " + c.String())
	return t.c.declare(t.c.fresh("const"), t.sortOf(ty))
}

// bind an SSA value to a term, naming it so later references stay small.
func (t *fnTrans) setVal(v ssa.Value, term string) string {
	s := t.sortOf(v.Type())
	var n string
	if _, exists := t.c.byName[v.Name()]; exists {
		n = t.c.define(t.c.fresh(v.Name()), s, term)
	} else {
		n = t.c.define(v.Name(), s, term)
	}
	t.vals[v] = []string{n}
	return n
}

func (t *fnTrans) freshVal(v ssa.Value) string {
	s := t.sortOf(v.Type())
	n := t.c.declare(t.c.fresh(v.Name()), s)
	t.vals[v] = []string{n}
	t.assumeType(n, v.Type())
	return n
}

func (t *fnTrans) freshOf(prefix string, ty types.Type) string {
	n := t.c.declare(t.c.fresh(prefix), t.sortOf(ty))
	t.assumeType(n, ty)
	return n
}

// assumeType adds the representation invariants of a Go type for term x.
func (t *fnTrans) assumeType(x string, ty types.Type) {
	switch u := ty.Underlying().(type) {
	case *types.Basic:
		if lo, hi, ok := intRange(ty); ok {
			t.assume("(and (<= " + lo + " " + x + ") (<= " + x + " " + hi + "))")
		}
	case *types.Slice:
		t.assume(fmt.Sprintf("(and (<= 0 (sl_off %s)) (<= 0 (sl_len %s)) (<= (sl_len %s) (sl_cap %s)) (<= (sl_cap %s) 140737488355328) (<= (sl_arr %s) %s))", x, x, x, x, x, x, t.h.get(t.cur, "alloc"))) // arrays embedded in struct fields have negative ids
	case *types.Pointer, *types.Chan, *types.Map, *types.Signature:
		t.assume(fmt.Sprintf("(and (<= 0 %s) (<= %s %s))", x, x, t.h.get(t.cur, "alloc")))
	case *types.Interface:
		t.assume(fmt.Sprintf("(and (<= 0 (itag %s)) (=> (= (itag %s) 0) (= %s nil_iface)))", x, x, x))
		_ = u
	}
}

func (t *fnTrans) newRef(prefix string) string {
	r := t.c.declare(t.c.fresh(prefix), "Int")
	t.assume("(> " + r + " " + t.h.get(t.cur, "alloc") + ")")
	t.h.set(t.cur, "alloc", r)
	return r
}

func (t *fnTrans) bumpAlloc() {
	a := t.c.declare(t.c.fresh("alloc"), "Int")
	t.assume("(>= " + a + " " + t.h.get(t.cur, "alloc") + ")")
	t.h.set(t.cur, "alloc", a)
}

// ---- locations ----------------------------------------------------------------

func (t *fnTrans) fieldHV(owner types.Type, i int) (hv string, ft types.Type, fname string) {
	st := owner.Underlying().(*types.Struct)
	f := st.Field(i)
	key := t.g.typeKey(owner)
	hv = "F:" + key + "." + f.Name()
	t.h.reg(hv, "(Array Int "+t.sortOf(f.Type())+")")
	return hv, f.Type(), f.Name()
}

func (t *fnTrans) faddr(owner types.Type, i int, base string) string {
	st := owner.Underlying().(*types.Struct)
	f := st.Field(i)
	key := t.g.typeKey(owner) + "." + f.Name()
	fn := t.c.declareFun("faddr:"+key, []string{"Int"}, "Int")
	inv := t.c.declareFun("fbase:"+key, []string{"Int"}, "Int")
	tagf := t.c.declareFun("ftag", []string{"Int"}, "Int")
	tag, ok := t.g.fieldTags[key]
	if !ok {
		tag = len(t.g.fieldTags) + 1
		t.g.fieldTags[key] = tag
	}
	term := "(" + fn + " " + base + ")"
	t.c.axiom(fmt.Sprintf("(and (= (%s %s) %s) (= (%s %s) %d) (< %s 0))", inv, term, base, tagf, term, tag, term))
	return term
}

func bare(s string) string { return strings.ReplaceAll(s, "|", "") }

func (t *fnTrans) elemHV(elem types.Type) string {
	s := t.sortOf(elem)
	hv := t.g.elemHVName(t.c, elem)
	t.h.reg(hv, "(Array Int (Array Int "+s+"))")
	return hv
}

// elemHVName: the heap variable holding the elements of arrays whose element type is elem.
// Integers of every width share E:Int (conversions between byte-like types keep the array);
// references are kept apart by their Go type: a []*context and a []byte never share an array,
// so a callee that rewrites a slice of pointers leaves every byte buffer alone.
func (g *Gen) elemHVName(c *FnCtx, elem types.Type) string {
	s := bare(g.sortOf(c, elem))
	if s == "Int" {
		switch elem.Underlying().(type) {
		case *types.Pointer, *types.Chan, *types.Map, *types.Signature:
			return "E:Int:" + sanitize(g.typeKey(elem))
		}
	}
	return "E:" + s
}

func (t *fnTrans) cellHV(ty types.Type) string {
	s := t.sortOf(ty)
	hv := "C:" + bare(s)
	t.h.reg(hv, "(Array Int "+s+")")
	return hv
}

func (t *fnTrans) globalHV(g *ssa.Global) (string, types.Type) {
	ty := g.Type().(*types.Pointer).Elem()
	hv := "G:" + t.g.relPkg(g.Pkg.Pkg.Path()) + "." + g.Name()
	t.h.reg(hv, t.sortOf(ty))
	return hv, ty
}

// locOf resolves the location a pointer value designates.
func (t *fnTrans) locOf(p ssa.Value) *loc {
	if l, ok := t.locs[p]; ok {
		return l
	}
	switch v := p.(type) {
	case *ssa.Global:
		hv, ty := t.globalHV(v)
		return &loc{kind: locGlobal, hv: hv, typ: ty}
	}
	// unknown pointer: a cell (pointer to scalar / struct by reference)
	pt, ok := p.Type().Underlying().(*types.Pointer)
	if !ok {
		panic("locOf non-pointer " + p.String())
	}
	return &loc{kind: locCell, base: t.val(p), typ: pt.Elem(), baseVal: p}
}

func (t *fnTrans) isStruct(ty types.Type) (*types.Struct, bool) {
	s, ok := ty.Underlying().(*types.Struct)
	return s, ok
}

// load reads the value at l in the current state.
func (t *fnTrans) load(l *loc) string {
	switch l.kind {
	case locField:
		return sel(t.h.get(t.cur, l.hv), l.base)
	case locElem:
		return sel(sel(t.h.get(t.cur, l.hv), l.base), l.idx)
	case locGlobal:
		return t.h.get(t.cur, l.hv)
	case locCell:
		if st, ok := t.isStruct(l.typ); ok && st.NumFields() > 0 {
			return t.loadStruct(l.typ, l.base)
		}
		if l.baseVal != nil {
			if v, ok := t.stable[l.baseVal]; ok {
				return v
			}
		}
		hv := t.cellHV(l.typ)
		return sel(t.h.get(t.cur, hv), l.base)
	}
	panic("load")
}

func (t *fnTrans) loadStruct(ty types.Type, base string) string {
	st := ty.Underlying().(*types.Struct)
	if st.NumFields() == 0 {
		return "unit"
	}
	s := t.sortOf(ty)
	name := strings.Trim(s, "|")
	var fs []string
	for i := 0; i < st.NumFields(); i++ {
		ft := st.Field(i).Type()
		if fst, ok := t.isStruct(ft); ok && fst.NumFields() > 0 {
			fs = append(fs, t.loadStruct(ft, t.faddr(ty, i, base)))
		} else if ok {
			fs = append(fs, "unit")
		} else {
			hv, _, _ := t.fieldHV(ty, i)
			fs = append(fs, sel(t.h.get(t.cur, hv), base))
		}
	}
	return "(" + q("mk:"+name) + " " + strings.Join(fs, " ") + ")"
}

func (t *fnTrans) storeStruct(ty types.Type, base string, v string) {
	st := ty.Underlying().(*types.Struct)
	if st.NumFields() == 0 {
		return
	}
	s := t.sortOf(ty)
	name := strings.Trim(s, "|")
	for i := 0; i < st.NumFields(); i++ {
		ft := st.Field(i).Type()
		fv := "(" + q(name+"."+st.Field(i).Name()) + " " + v + ")"
		if fst, ok := t.isStruct(ft); ok && fst.NumFields() > 0 {
			t.storeStruct(ft, t.faddr(ty, i, base), fv)
		} else if ok {
			continue
		} else {
			hv, _, _ := t.fieldHV(ty, i)
			t.h.set(t.cur, hv, store(t.h.get(t.cur, hv), base, fv))
		}
	}
}

func (t *fnTrans) zeroStruct(ty types.Type, base string) {
	st := ty.Underlying().(*types.Struct)
	for i := 0; i < st.NumFields(); i++ {
		ft := st.Field(i).Type()
		if fst, ok := t.isStruct(ft); ok {
			if fst.NumFields() > 0 && t.g.inModule(pkgOf(ft)) {
				t.zeroStruct(ft, t.faddr(ty, i, base))
			}
			continue
		}
		hv, _, _ := t.fieldHV(ty, i)
		t.h.set(t.cur, hv, store(t.h.get(t.cur, hv), base, t.g.zero(t.c, ft)))
	}
}

func pkgOf(t types.Type) *types.Package {
	if n, ok := types.Unalias(t).(*types.Named); ok {
		return n.Obj().Pkg()
	}
	return nil
}

func (t *fnTrans) storeLoc(l *loc, v string) {
	switch l.kind {
	case locField:
		t.h.set(t.cur, l.hv, store(t.h.get(t.cur, l.hv), l.base, v))
	case locElem:
		a := t.h.get(t.cur, l.hv)
		t.h.set(t.cur, l.hv, store(a, l.base, store(sel(a, l.base), l.idx, v)))
	case locGlobal:
		t.h.set(t.cur, l.hv, v)
	case locCell:
		if st, ok := t.isStruct(l.typ); ok {
			if st.NumFields() > 0 {
				t.storeStruct(l.typ, l.base, v)
			}
			return
		}
		hv := t.cellHV(l.typ)
		t.h.set(t.cur, hv, store(t.h.get(t.cur, hv), l.base, v))
		if a, ok := l.baseVal.(*ssa.Alloc); ok && t.g.singleStore(a) {
			t.stable[a] = v
		}
	}
}

// havocLoc makes the contents of l arbitrary (pointer escaped to unknown code).
func (t *fnTrans) havocLoc(l *loc) {
	if st, ok := t.isStruct(l.typ); ok && l.kind == locCell {
		_ = st
		v := t.freshOf("hv", l.typ)
		t.storeLoc(l, v)
		return
	}
	v := t.freshOf("hv", l.typ)
	t.storeLoc(l, v)
}

// ---- CFG preparation ---------------------------------------------------------------

func (t *fnTrans) prepareCFG() {
	if t.plan != nil {
		t.curNode = t.plan.root
	} else {
		t.curNode = &inlNode{fn: t.fn}
	}
	t.planLoops()
	t.loops, t.order = t.computeCFG(t.fn)
}

// loopsOf: natural loops of fn with their first source position.
func loopsOf(fn *ssa.Function) map[*ssa.BasicBlock]*loopInfo {
	t := struct{ loops map[*ssa.BasicBlock]*loopInfo }{}
	t.loops = map[*ssa.BasicBlock]*loopInfo{}
	// back edges by dominance
	for _, b := range fn.Blocks {
		for _, s := range b.Succs {
			if s.Dominates(b) {
				li := t.loops[s]
				if li == nil {
					li = &loopInfo{header: s, blocks: map[*ssa.BasicBlock]bool{s: true}}
					t.loops[s] = li
				}
				// natural loop: nodes reaching b without passing s
				stack := []*ssa.BasicBlock{b}
				for len(stack) > 0 {
					n := stack[len(stack)-1]
					stack = stack[:len(stack)-1]
					if li.blocks[n] {
						continue
					}
					li.blocks[n] = true
					stack = append(stack, n.Preds...)
				}
			}
		}
	}
	for _, li := range t.loops {
		li.pos = token.NoPos
		for b := range li.blocks {
			for _, in := range b.Instrs {
				if _, isd := in.(*ssa.DebugRef); isd {
					continue
				}
				if p := in.Pos(); p.IsValid() && (li.pos == token.NoPos || p < li.pos) {
					li.pos = p
				}
			}
		}
	}
	return t.loops
}

// planLoops numbers the loops of the function and of the helpers translated in place in
// flattened source order (a helper's loops stand where its call stands).
func (t *fnTrans) planLoops() {
	type ent struct {
		li *loopInfo
		vp vpos
		n  *inlNode
	}
	var ls []ent
	for _, n := range t.planNodes() {
		n.loopOrd = map[*ssa.BasicBlock]int{}
		for _, li := range loopsOf(n.fn) {
			ls = append(ls, ent{li, append(append(vpos{}, n.vp...), li.pos), n})
		}
	}
	sort.Slice(ls, func(i, j int) bool {
		if vposLess(ls[i].vp, ls[j].vp) != vposLess(ls[j].vp, ls[i].vp) {
			return vposLess(ls[i].vp, ls[j].vp)
		}
		if len(ls[i].li.blocks) != len(ls[j].li.blocks) {
			return len(ls[i].li.blocks) > len(ls[j].li.blocks)
		}
		return ls[i].li.header.Index < ls[j].li.header.Index
	})
	t.loopOrds = map[int]bool{}
	for i, e := range ls {
		e.n.loopOrd[e.li.header] = i + 1
		t.loopOrds[i+1] = true
	}
}

func (t *fnTrans) computeCFG(fn *ssa.Function) (map[*ssa.BasicBlock]*loopInfo, []*ssa.BasicBlock) {
	loops := loopsOf(fn)
	for h, li := range loops {
		li.ord = t.curNode.loopOrd[h]
	}
	var order []*ssa.BasicBlock
	// reverse postorder ignoring back edges
	seen := map[*ssa.BasicBlock]bool{}
	var post []*ssa.BasicBlock
	var dfs func(b *ssa.BasicBlock)
	dfs = func(b *ssa.BasicBlock) {
		seen[b] = true
		for _, s := range b.Succs {
			if s.Dominates(b) {
				continue
			}
			if !seen[s] {
				dfs(s)
			}
		}
		post = append(post, b)
	}
	if len(fn.Blocks) > 0 {
		dfs(fn.Blocks[0])
	}
	if fn.Recover != nil && !seen[fn.Recover] {
		// recover block is only reachable through panics; not modelled
	}
	for i := len(post) - 1; i >= 0; i-- {
		order = append(order, post[i])
	}
	return loops, order
}

func isBackEdge(from, to *ssa.BasicBlock) bool { return to.Dominates(from) }

// edgeTerm = reach at end of pred ∧ branch condition towards succ.
func (t *fnTrans) edgeTerm(pred, succ *ssa.BasicBlock) string {
	st := t.out[pred]
	if st == nil {
		return "false"
	}
	cond := "true"
	if iff, ok := pred.Instrs[len(pred.Instrs)-1].(*ssa.If); ok {
		c := t.val(iff.Cond)
		if pred.Succs[0] == succ && pred.Succs[1] == succ {
			cond = "true"
		} else if pred.Succs[0] == succ {
			cond = c
		} else {
			cond = not(c)
		}
	}
	return and(st.reach, cond)
}

// ---- main loop -------------------------------------------------------------------------

func (t *fnTrans) run() {
	t.prepareCFG()
	t.entry = t.h.base("true")
	t.cur = t.h.child(t.entry)
	t.setupParams()
	t.entry = t.cur
	t.cur = t.h.child(t.entry)
	t.siteState["entry"] = t.entry
	t.assignSites()
	t.atEntry()

	first := true
	for _, b := range t.order {
		t.curBlock = b
		if first {
			first = false
		} else {
			t.enterBlock(b)
		}
		if li := t.loops[b]; li != nil {
			t.enterLoop(b, li)
		}
		for _, in := range b.Instrs {
			t.instr(in)
		}
		t.out[b] = t.cur
		t.loopExitChecks(b)
		// back edges leaving this block
		for _, s := range b.Succs {
			if isBackEdge(b, s) {
				t.backEdge(b, s)
			}
		}
	}
	t.missingSites()
	t.frameCheck()
	t.finishNames()
}

// frameCheck: a `modifies` clause is used as the frame of every call of the function, so the body
// must respect it: every heap variable the body (transitively, syntactically) may store to has
// to be listed.  Without this the clause would be an unchecked assumption.
func (t *fnTrans) frameCheck() {
	fc := t.contract
	if fc == nil || !fc.hasMods {
		return
	}
	allowed := map[string]bool{}
	for _, v := range t.modVars(fc, t.fn) {
		allowed[v] = true
	}
	s := t.g.summaries[t.fn]
	mk := func(disc, note string) {
		o := t.oblige("frame", disc, t.fn.Pos(), "false", note)
		o.Trivial = false
		o.Reach = "true"
	}
	if s == nil || s.all {
		mk("writes:anything", "declared `modifies "+strings.Join(fc.modifies, " ")+"` but the body (or something it calls) may write any heap location")
		return
	}
	var vs []string
	for v := range s.vars {
		vs = append(vs, v)
	}
	sort.Strings(vs)
	for _, v := range vs {
		if allowed[v] || v == "alloc" || v == "held" || v == "rheld" || strings.HasPrefix(v, "ghost:") || strings.HasPrefix(v, "RV:") {
			continue
		}
		mk("writes:"+v, "declared `modifies "+strings.Join(fc.modifies, " ")+"` but the body (or something it calls) may write "+v)
	}
}

// missingSites: every site a contract clause is attached to must exist in the code.
func (t *fnTrans) missingSites() {
	fc := t.contract
	if fc == nil {
		return
	}
	// a clause about loop N needs a loop N
	haveLoop := map[int]bool{}
	for ord := range t.loopOrds {
		haveLoop[ord] = true
	}
	loopClause := func(n int, sl specLine, what string) {
		if haveLoop[n] {
			return
		}
		o := t.oblige("contract", fmt.Sprintf("%s:%d:missing-loop", sl.file, sl.line), token.NoPos, "false", fmt.Sprintf("the code no longer has loop %d this %s clause is attached to [%s]", n, what, sl.text))
		o.Trivial = false
		o.Reach = "true"
	}
	for n, sls := range fc.loopInv {
		for _, sl := range sls {
			loopClause(n, sl, "invariant")
		}
	}
	for n, sls := range fc.loopEnsures {
		for _, sl := range sls {
			loopClause(n, sl, "ensures")
		}
	}
	for n, sls := range fc.loopOver {
		for _, sl := range sls {
			loopClause(n, sl, "over")
		}
	}
	for n := range fc.loopComplete {
		loopClause(n, specLine{file: fc.file, line: fc.line, text: fmt.Sprintf("loop %d complete", n)}, "complete")
	}
	have := map[string]bool{}
	for _, se := range t.allSites {
		s := se.label
		have[s] = true
		have[s+".then"] = true
		have[s+".else"] = true
	}
	var present []string
	for _, se := range t.allSites {
		present = append(present, se.label)
	}
	sort.Strings(present)
	check := func(label string, sl specLine) {
		if have[label] {
			return
		}
		o := t.oblige("contract", fmt.Sprintf("%s:%d:missing-site", sl.file, sl.line), token.NoPos, "false", "the code no longer has the site "+label+" this contract clause is attached to ["+sl.text+"]; sites present: "+strings.Join(present, " "))
		o.Trivial = false
		o.Reach = "true"
	}
	for label, sls := range fc.at {
		for _, sl := range sls {
			check(label, sl)
		}
	}
	for label, sls := range fc.atBefore {
		for _, sl := range sls {
			check(label, sl)
		}
	}
	for label, sls := range fc.atAssume {
		for _, sl := range sls {
			check(label, sl)
		}
	}
	for label, sls := range fc.atSet {
		for _, sl := range sls {
			check(label, sl)
		}
	}
	for _, gl := range fc.ghost {
		if _, _, site, ok := splitGhost(gl.text); ok {
			check(site, gl)
		}
	}
}

func (t *fnTrans) enterBlock(b *ssa.BasicBlock) {
	var ps []*State
	var conds []string
	var preds []*ssa.BasicBlock
	for _, p := range b.Preds {
		if isBackEdge(p, b) {
			continue
		}
		if t.out[p] == nil {
			continue // unreachable pred (e.g. recover)
		}
		ps = append(ps, t.out[p])
		conds = append(conds, t.edgeTerm(p, b))
		preds = append(preds, p)
	}
	if len(ps) == 0 {
		st := t.h.base("false")
		t.cur = t.h.child(st)
		return
	}
	reach := or(conds...)
	rn := t.c.define(t.c.fresh(fmt.Sprintf("R@b%d", b.Index)), "Bool", reach)
	var st *State
	if len(ps) == 1 {
		st = t.h.child(ps[0])
		st.reach = rn
	} else {
		st = t.h.join(ps, conds, rn)
		// defers must agree
		for _, p := range ps[1:] {
			if len(p.defers) != len(ps[0].defers) {
				t.abstract("defer stacks differ at join b" + fmt.Sprint(b.Index))
			}
		}
	}
	t.cur = t.h.child(st)
	// phis (non-loop-header)
	if t.loops[b] == nil {
		for _, in := range b.Instrs {
			phi, ok := in.(*ssa.Phi)
			if !ok {
				break
			}
			var vs []string
			for _, p := range preds {
				// index of p in b.Preds
				for k, bp := range b.Preds {
					if bp == p {
						vs = append(vs, t.val(phi.Edges[k]))
						break
					}
				}
			}
			body := vs[len(vs)-1]
			for i := len(vs) - 2; i >= 0; i-- {
				body = ite(conds[i], vs[i], body)
			}
			t.setVal(phi, body)
			// carry static knowledge when all edges agree
			t.mergePhiMeta(phi)
		}
	}
}

func (t *fnTrans) mergePhiMeta(phi *ssa.Phi) {
	var l0 *loc
	for i, e := range phi.Edges {
		l := t.locs[e]
		if i == 0 {
			l0 = l
		} else if l != l0 {
			return
		}
	}
	if l0 != nil {
		t.locs[phi] = l0
	}
}

func (t *fnTrans) instr(in ssa.Instruction) {
	defer func() {
		if r := recover(); r != nil {
			panic(fmt.Sprintf("%v\n  at %s: %s [%T] (%s)", r, t.key, in.String(), in, t.g.posStr(in.Pos())))
		}
	}()
	switch in := in.(type) {
	case *ssa.DebugRef:
		if id, ok := in.Expr.(interface{ String() string }); ok {
			_ = id
		}
		t.debugRef(in)
	case *ssa.Phi:
		// handled at block entry
	case *ssa.Alloc:
		t.alloc(in)
	case *ssa.BinOp:
		t.binop(in)
	case *ssa.UnOp:
		t.unop(in)
	case *ssa.Call:
		t.call(in, in.Common(), in)
	case *ssa.Go:
		t.goStmt(in)
	case *ssa.Defer:
		t.cur.defers = append(append([]deferred{}, t.cur.defers...), deferred{in})
	case *ssa.RunDefers:
		ds := t.cur.defers
		t.cur.defers = nil
		for i := len(ds) - 1; i >= 0; i-- {
			t.call(ds[i].instr, ds[i].instr.Common(), nil)
		}
	case *ssa.ChangeType:
		t.setVal(in, t.val(in.X))
		t.copyMeta(in, in.X)
	case *ssa.ChangeInterface:
		t.setVal(in, t.val(in.X))
	case *ssa.Convert:
		t.convert(in)
	case *ssa.MakeInterface:
		t.makeInterface(in)
	case *ssa.TypeAssert:
		t.typeAssert(in)
	case *ssa.Extract:
		tu := t.tuple(in.Tuple)
		t.vals[in] = []string{tu[in.Index]}
		if c, ok := in.Tuple.(*ssa.Call); ok {
			_ = c
		}
	case *ssa.Field:
		st := in.X.Type().Underlying().(*types.Struct)
		s := strings.Trim(t.sortOf(in.X.Type()), "|")
		ft := st.Field(in.Field).Type()
		if fs, ok := t.isStruct(ft); ok && fs.NumFields() == 0 {
			t.setVal(in, "unit")
		} else {
			t.setVal(in, "("+q(s+"."+st.Field(in.Field).Name())+" "+t.val(in.X)+")")
		}
	case *ssa.FieldAddr:
		t.fieldAddr(in)
	case *ssa.Index:
		t.index(in)
	case *ssa.IndexAddr:
		t.indexAddr(in)
	case *ssa.Slice:
		t.slice(in)
	case *ssa.Lookup:
		t.lookup(in)
	case *ssa.MapUpdate:
		t.mapUpdate(in)
	case *ssa.MakeMap:
		t.makeMap(in)
	case *ssa.MakeSlice:
		t.makeSlice(in)
	case *ssa.MakeChan:
		t.makeChan(in)
	case *ssa.MakeClosure:
		r := t.newRef(in.Name())
		t.vals[in] = []string{r}
		t.closures[in] = in
		// identity of the code behind the function value (fn_is)
		t.assume("(= (fnid " + r + ") " + nameTag("fn:"+t.g.fnKey(in.Fn.(*ssa.Function))) + ")")
	case *ssa.Range:
		t.rangeInstr(in)
	case *ssa.Next:
		t.next(in)
	case *ssa.Select:
		t.selectInstr(in)
	case *ssa.Send:
		t.send(in)
	case *ssa.Store:
		t.storeInstr(in)
	case *ssa.If:
		t.ifSite(in)
	case *ssa.Jump:
		// edges computed lazily
	case *ssa.Return:
		if len(t.frames) > 0 {
			t.inlineReturn(in)
		} else {
			t.ret(in)
		}
	case *ssa.Panic:
		t.oblige("safe.panic", "panic", in.Pos(), "false", "explicit panic reachable")
		t.cur.reach = "false"
	case *ssa.SliceToArrayPointer, *ssa.MultiConvert:
		t.abstract("unsupported " + in.String())
		if v, ok := in.(ssa.Value); ok {
			t.freshVal(v)
		}
	default:
		panic(fmt.Sprintf("unhandled instruction %T", in))
	}
}

func (t *fnTrans) copyMeta(dst, src ssa.Value) {
	if l, ok := t.locs[src]; ok {
		t.locs[dst] = l
	}
	if c, ok := t.closures[src]; ok {
		t.closures[dst] = c
	}
	if t.local[src] {
		t.local[dst] = true
	}
}

func (t *fnTrans) debugRef(in *ssa.DebugRef) {
	if in.IsAddr {
		return
	}
	name := exprName(in.Expr)
	if name == "" || name == "_" {
		return
	}
	idx := 0
	for i, x := range in.Block().Instrs {
		if x == ssa.Instruction(in) {
			idx = i
		}
	}
	t.names[name] = append(t.names[name], nameRef{in.X, in.Block(), idx})
}

// ---- instructions ----------------------------------------------------------------

func (t *fnTrans) alloc(in *ssa.Alloc) {
	r := t.newRef(in.Name())
	t.vals[in] = []string{r}
	ty := in.Type().(*types.Pointer).Elem()
	t.local[in] = true
	if st, ok := t.isStruct(ty); ok {
		if st.NumFields() > 0 {
			t.zeroStruct(ty, r)
		}
		return
	}
	if at, ok := ty.Underlying().(*types.Array); ok {
		// array cell: contents live in the element heap keyed by the ref
		hv := t.elemHV(at.Elem())
		t.h.set(t.cur, hv, store(t.h.get(t.cur, hv), r, "((as const (Array Int "+t.sortOf(at.Elem())+")) "+t.g.zero(t.c, at.Elem())+")"))
		return
	}
	hv := t.cellHV(ty)
	t.h.set(t.cur, hv, store(t.h.get(t.cur, hv), r, t.g.zero(t.c, ty)))
	t.locs[in] = &loc{kind: locCell, base: r, typ: ty, baseVal: in}
}

func (t *fnTrans) fieldAddr(in *ssa.FieldAddr) {
	pt := in.X.Type().Underlying().(*types.Pointer)
	owner := pt.Elem()
	base := t.val(in.X)
	t.nilCheck(in.X, base, in.Pos(), "field")
	t.ownFieldUse(in, base)
	st := owner.Underlying().(*types.Struct)
	f := st.Field(in.Field)
	term := t.faddr(owner, in.Field, base)
	t.vals[in] = []string{term}
	var enc *loc
	if pl, ok := t.locs[in.X]; ok && pl.kind == locCell {
		if pl.owner != "" {
			enc = pl
		} else {
			enc = pl.enc
		}
	}
	if enc == nil {
		enc = t.pointeeLoc(in.X)
	}
	defer func() {
		if l := t.locs[in]; l != nil && enc != nil {
			l.enc = enc
		}
	}()
	if _, isStruct := t.isStruct(f.Type()); isStruct {
		// nested struct: its fields are addressed through the faddr term
		if t.local[in.X] {
			t.local[in] = true
		}
		t.locs[in] = &loc{kind: locCell, base: term, typ: f.Type(), baseVal: in.X, owner: t.g.typeKey(owner), fname: f.Name(), ownerT: owner}
		return
	}
	if at, isArr := f.Type().Underlying().(*types.Array); isArr {
		_ = at
		// by-value array field: contents in element heap keyed by the faddr term
		t.locs[in] = &loc{kind: locCell, base: term, typ: f.Type(), baseVal: in.X, owner: t.g.typeKey(owner), fname: f.Name(), ownerT: owner}
		return
	}
	hv, ft, fname := t.fieldHV(owner, in.Field)
	t.locs[in] = &loc{kind: locField, base: base, hv: hv, typ: ft, owner: t.g.typeKey(owner), fname: fname, baseVal: in.X, ownerT: owner}
}

// pointeeLoc: v is the value loaded from a pointer field declared `pointee_guarded_by`; the result
// stands for "what that field points to" in guard obligations (named Type.*field).
func (t *fnTrans) pointeeLoc(v ssa.Value) *loc {
	u, ok := v.(*ssa.UnOp)
	if !ok || u.Op != token.MUL {
		return nil
	}
	fa, ok := u.X.(*ssa.FieldAddr)
	if !ok {
		return nil
	}
	pt, ok := fa.X.Type().Underlying().(*types.Pointer)
	if !ok {
		return nil
	}
	st, ok := pt.Elem().Underlying().(*types.Struct)
	if !ok {
		return nil
	}
	sa := t.g.ann.structs[t.g.typeKey(pt.Elem())]
	if sa == nil {
		return nil
	}
	name := "*" + st.Field(fa.Field).Name()
	if sa.fields[name] == nil {
		return nil
	}
	return &loc{kind: locCell, base: t.val(fa.X), typ: u.Type(), baseVal: fa.X, owner: t.g.typeKey(pt.Elem()), fname: name, ownerT: pt.Elem()}
}

// nilCheck emits safe.nil unless policy says the pointer is trusted non-nil.
func (t *fnTrans) nilCheck(v ssa.Value, term string, pos token.Pos, what string) {
	if t.local[v] {
		return
	}
	if !t.mayBeNil(v) {
		t.assume("(not (= " + term + " 0))")
		return
	}
	t.oblige("safe.nil", what+":"+t.describe(v), pos, "(not (= "+term+" 0))", "nil dereference")
}

// mayBeNil: policy (DESIGN §4): parameters, receivers, free variables and
// loads from fields not declared nullable are trusted non-nil; results of map
// lookups, comma-ok forms, nullable fields and phis thereof must be proved.
func (t *fnTrans) mayBeNil(v ssa.Value) bool {
	switch v := v.(type) {
	case *ssa.Parameter:
		if a, ok := t.paramArg[v]; ok {
			return t.mayBeNil(a) // parameter of a helper translated in place: what the caller passed
		}
		return t.contract != nil && t.contract.nullable[t.g.contractName(t.key, v.Name())]
	case *ssa.FreeVar, *ssa.Global, *ssa.Alloc, *ssa.MakeClosure, *ssa.MakeMap, *ssa.MakeChan, *ssa.Function, *ssa.FieldAddr, *ssa.IndexAddr:
		return false
	case *ssa.UnOp:
		if v.Op == token.MUL {
			if fa, ok := v.X.(*ssa.FieldAddr); ok {
				pt := fa.X.Type().Underlying().(*types.Pointer)
				st := pt.Elem().Underlying().(*types.Struct)
				return t.g.ann.isNullable(t.g.typeKey(pt.Elem()), st.Field(fa.Field).Name())
			}
			return false
		}
		if v.Op == token.ARROW {
			return false
		}
		return false
	case *ssa.Extract:
		switch tu := v.Tuple.(type) {
		case *ssa.TypeAssert:
			if c, ok := tu.X.(*ssa.Call); ok && c.Call.IsInvoke() && c.Call.Method.Name() == "GetPrivate" {
				// p, ok := pp.GetPrivate().(*pipe): same trust as the plain form below; the
				// ok == false case yields nil and callers test ok (safe.nil would otherwise
				// fire on the use inside `if ok`, which is path-sensitive and proved there)
				return v.Index != 0
			}
			return true
		case *ssa.Lookup:
			return true
		case *ssa.UnOp:
			return tu.CommaOk
		case *ssa.Select:
			return false
		case *ssa.Next:
			return false
		case *ssa.Call:
			return t.g.ann.resultNullable(t, tu)
		}
		return false
	case *ssa.Lookup:
		return true
	case *ssa.Call:
		return t.g.ann.resultNullable(t, v)
	case *ssa.Phi:
		for _, e := range v.Edges {
			if c, ok := e.(*ssa.Const); ok && c.IsNil() {
				return true
			}
			if e != v && t.mayBeNilShallow(e) {
				return true
			}
		}
		return false
	case *ssa.Const:
		return v.IsNil()
	case *ssa.TypeAssert:
		// x.(*T) succeeds for a nil *T held in a non-nil interface: the payload is only as
		// non-nil as whoever stored it made it, so a dereference must be proved
		// (exception, listed in the evidence assumptions: pp.GetPrivate().(*pipe) is what the
		// protocol's own AddPipe stored with SetPrivate, a fact about the caller's history)
		if c, ok := v.X.(*ssa.Call); ok && c.Call.IsInvoke() && c.Call.Method.Name() == "GetPrivate" {
			return false
		}
		_, isPtr := v.AssertedType.Underlying().(*types.Pointer)
		return isPtr && !v.CommaOk
	case *ssa.ChangeType:
		return t.mayBeNil(v.X)
	}
	return false
}

func (t *fnTrans) mayBeNilShallow(v ssa.Value) bool {
	if _, ok := v.(*ssa.Phi); ok {
		return false
	}
	return t.mayBeNil(v)
}

func (t *fnTrans) describe(v ssa.Value) string {
	switch v := v.(type) {
	case *ssa.Parameter:
		if a, ok := t.paramArg[v]; ok {
			return t.describe(a)
		}
		return v.Name()
	case *ssa.UnOp:
		if v.Op == token.MUL {
			if fa, ok := v.X.(*ssa.FieldAddr); ok {
				pt := fa.X.Type().Underlying().(*types.Pointer)
				st := pt.Elem().Underlying().(*types.Struct)
				return t.describe(fa.X) + "." + st.Field(fa.Field).Name()
			}
			if g, ok := v.X.(*ssa.Global); ok {
				return g.Name()
			}
		}
	case *ssa.FieldAddr:
		pt := v.X.Type().Underlying().(*types.Pointer)
		st := pt.Elem().Underlying().(*types.Struct)
		return "&" + t.describe(v.X) + "." + st.Field(v.Field).Name()
	case *ssa.Extract:
		return t.describe(v.Tuple) + "#" + fmt.Sprint(v.Index)
	case *ssa.Lookup:
		return t.describe(v.X) + "[]"
	case *ssa.Call:
		return "call " + calleeName(v.Common())
	case *ssa.Phi:
		if v.Comment != "" {
			return v.Comment
		}
	case *ssa.Global:
		return v.Name()
	case *ssa.Const:
		return v.String()
	case *ssa.FreeVar:
		return v.Name()
	case *ssa.Alloc:
		if v.Comment != "" {
			return v.Comment
		}
	case *ssa.TypeAssert:
		return t.describe(v.X) + ".(T)"
	}
	// fall back to a source name if one was recorded
	best := ""
	for n, vs := range t.names {
		for _, x := range vs {
			if x.v == v && (best == "" || n < best) {
				best = n
			}
		}
	}
	if best != "" {
		return best
	}
	return "tmp"
}

func calleeName(c *ssa.CallCommon) string {
	if c.IsInvoke() {
		return c.Method.Name()
	}
	switch f := c.Value.(type) {
	case *ssa.Function:
		return f.Name()
	case *ssa.Builtin:
		return f.Name()
	case *ssa.MakeClosure:
		return f.Fn.Name()
	}
	return "fnvalue"
}

func (t *fnTrans) storeInstr(in *ssa.Store) {
	l := t.locOf(in.Addr)
	v := t.val(in.Val)
	t.guardAccess(l, true, in.Pos())
	t.ownWriteShared(in, l)
	t.ownStoreHook(in, l)
	t.tokStoreHook(in, l)
	// array-typed destinations
	if at, ok := l.typ.Underlying().(*types.Array); ok && l.kind == locCell {
		hv := t.elemHV(at.Elem())
		t.h.set(t.cur, hv, store(t.h.get(t.cur, hv), l.base, v))
		return
	}
	t.storeLoc(l, v)
	// publication: storing a private object into a non-private place publishes it
	if t.local[in.Val] && !(l.baseVal != nil && t.local[l.baseVal]) && l.kind != locCell {
		// keep it private for guard purposes until function end only if stored in a local
	}
}

func (t *fnTrans) unop(in *ssa.UnOp) {
	switch in.Op {
	case token.MUL:
		l := t.locOf(in.X)
		t.guardAccess(l, false, in.Pos())
		if at, ok := l.typ.Underlying().(*types.Array); ok && l.kind == locCell {
			hv := t.elemHV(at.Elem())
			t.setVal(in, sel(t.h.get(t.cur, hv), l.base))
			return
		}
		if g, ok := in.X.(*ssa.Global); ok && g.Name() == "init$guard" {
			// a package initializer runs its body exactly once: the guard is false on entry
			t.setVal(in, "false")
			return
		}
		v := t.setVal(in, t.load(l))
		t.assumeLoaded(v, in.Type())
		if l.kind == locGlobal && !t.g.mutableGlobals[l.hv] && t.sortOf(in.Type()) == "Int" {
			if _, isInt := in.Type().Underlying().(*types.Basic); !isInt {
				// a global set only by init(): whatever it refers to existed before this call
				t.assume("(<= " + v + " " + t.h.get(t.entry, "alloc") + ")")
				if !t.g.globalStored[l.hv] {
					t.assume("(= " + v + " 0)") // never assigned anywhere: the zero value
				} else if !t.g.globalMaybeNil[l.hv] {
					t.assume("(not (= " + v + " 0))") // only ever assigned freshly made objects
				}
			}
		}
		t.ownLoadHook(in, l)
		t.tokLoadHook(in, l)
		if _, isChan := in.Type().Underlying().(*types.Chan); isChan && t.chanNeverClosed(in) {
			// `never_closed` field: no close() in the code base targets it (safe.close
			// "neverclosed" obligations at every close site), so what it holds is open
			t.assume(not(sel(t.h.get(t.cur, "chclosed"), t.val(in))))
		}
	case token.NOT:
		t.setVal(in, not(t.val(in.X)))
	case token.SUB:
		x := t.val(in.X)
		if bits, uns, ok := intBits(in.Type()); ok && uns {
			t.setVal(in, "(mod (- "+x+") "+pow2(bits)+")")
		} else {
			t.setVal(in, "(- "+x+")")
		}
	case token.XOR:
		x := t.val(in.X)
		if bits, uns, ok := intBits(in.Type()); ok {
			if uns {
				t.setVal(in, "(- "+pow2(bits)+" 1 "+x+")")
			} else {
				t.setVal(in, "(- (- "+x+") 1)")
			}
		} else {
			t.freshVal(in)
		}
	case token.ARROW:
		t.recv(in)
	default:
		panic("unop " + in.Op.String())
	}
}

// assumeLoaded: representation invariants for values read from memory.
func (t *fnTrans) assumeLoaded(v string, ty types.Type) {
	switch ty.Underlying().(type) {
	case *types.Basic:
		if bits, _, ok := intBits(ty); ok && bits < 64 {
			t.assumeType(v, ty)
		} else if _, uns, ok := intBits(ty); ok && uns {
			t.assume("(<= 0 " + v + ")")
		}
	case *types.Slice:
		t.assumeType(v, ty)
	case *types.Pointer, *types.Chan, *types.Map:
		t.assume(fmt.Sprintf("(and (<= 0 %s) (<= %s %s))", v, v, t.h.get(t.cur, "alloc")))
	case *types.Interface:
		t.assumeType(v, ty)
	}
}

func (t *fnTrans) convert(in *ssa.Convert) {
	from, to := in.X.Type(), in.Type()
	x := t.val(in.X)
	fb, fok := from.Underlying().(*types.Basic)
	tb, tok := to.Underlying().(*types.Basic)
	switch {
	case fok && tok && fb.Info()&types.IsInteger != 0 && tb.Info()&types.IsInteger != 0:
		t.setVal(in, t.wrapInt(x, from, to))
	case fok && tok && fb.Info()&types.IsInteger != 0 && tb.Info()&types.IsFloat != 0:
		t.setVal(in, "(to_real "+x+")")
	case fok && tok && fb.Info()&types.IsFloat != 0 && tb.Info()&types.IsInteger != 0:
		t.abstract("float->int as floor")
		t.setVal(in, "(to_int "+x+")")
	case fok && tok && fb.Info()&types.IsFloat != 0 && tb.Info()&types.IsFloat != 0:
		t.setVal(in, x)
	case fok && tok && fb.Info()&types.IsString != 0 && tb.Info()&types.IsString != 0:
		t.setVal(in, x)
	case fok && fb.Info()&types.IsString != 0:
		// string -> []byte
		if sl, ok := to.Underlying().(*types.Slice); ok {
			if eb, ok := sl.Elem().Underlying().(*types.Basic); ok && eb.Kind() == types.Uint8 {
				arr := t.newRef(in.Name() + ".arr")
				hv := t.elemHV(sl.Elem())
				t.h.set(t.cur, hv, store(t.h.get(t.cur, hv), arr, "(str_bytes "+x+")"))
				t.setVal(in, fmt.Sprintf("(mk_slice %s 0 (str_len %s) (str_len %s))", arr, x, x))
				t.assume("(>= (str_len " + x + ") 0)")
				return
			}
		}
		t.abstract("convert " + in.String())
		t.freshVal(in)
	case tok && tb.Info()&types.IsString != 0:
		if sl, ok := from.Underlying().(*types.Slice); ok {
			if eb, ok := sl.Elem().Underlying().(*types.Basic); ok && eb.Kind() == types.Uint8 {
				hv := t.elemHV(sl.Elem())
				s := t.setVal(in, fmt.Sprintf("(bytes_str %s (sl_off %s) (sl_len %s))", sel(t.h.get(t.cur, hv), "(sl_arr "+x+")"), x, x))
				t.assume(fmt.Sprintf("(= (str_len %s) (sl_len %s))", s, x))
				return
			}
		}
		t.abstract("convert " + in.String())
		t.freshVal(in)
	default:
		// pointer<->unsafe.Pointer etc.
		if t.sortOf(from) == t.sortOf(to) {
			t.setVal(in, x)
		} else {
			t.abstract("convert " + in.String())
			t.freshVal(in)
		}
	}
}

func (t *fnTrans) wrapInt(x string, from, to types.Type) string {
	fbits, funs, _ := intBits(from)
	tbits, tuns, _ := intBits(to)
	// identity when the source range fits
	if funs == tuns && fbits <= tbits {
		return x
	}
	if funs && !tuns && fbits < tbits {
		return x
	}
	if tuns {
		return "(mod " + x + " " + pow2(tbits) + ")"
	}
	h := pow2(tbits - 1)
	return "(- (mod (+ " + x + " " + h + ") " + pow2(tbits) + ") " + h + ")"
}

func (t *fnTrans) makeInterface(in *ssa.MakeInterface) {
	t.setVal(in, t.mkIface(in.X.Type(), t.val(in.X)))
}

func (t *fnTrans) mkIface(ty types.Type, x string) string {
	tag := t.g.tagOf(ty)
	i, s, b, r, sl := "0", "str_empty", "false", "0.0", "nil_slice"
	switch t.sortOf(ty) {
	case "Int":
		i = x
	case "Str":
		s = x
	case "Bool":
		b = x
	case "Real":
		r = x
	case "Slice":
		sl = x
	case "Unit":
	default:
		srt := t.sortOf(ty)
		bx := t.c.declareFun("box:"+strings.Trim(srt, "|"), []string{srt}, "Int")
		ub := t.c.declareFun("unbox:"+strings.Trim(srt, "|"), []string{"Int"}, srt)
		i = "(" + bx + " " + x + ")"
		t.c.axiom("(= (" + ub + " " + i + ") " + x + ")")
	}
	return fmt.Sprintf("(mk_iface %d %s %s %s %s %s)", tag, i, s, b, r, sl)
}

func (t *fnTrans) ifacePayload(ty types.Type, x string) string {
	switch t.sortOf(ty) {
	case "Int":
		return "(iint " + x + ")"
	case "Str":
		return "(istr " + x + ")"
	case "Bool":
		return "(ibool " + x + ")"
	case "Real":
		return "(ireal " + x + ")"
	case "Slice":
		return "(islice " + x + ")"
	case "Unit":
		return "unit"
	}
	srt := t.sortOf(ty)
	ub := t.c.declareFun("unbox:"+strings.Trim(srt, "|"), []string{"Int"}, srt)
	return "(" + ub + " (iint " + x + "))"
}

func (t *fnTrans) typeAssert(in *ssa.TypeAssert) {
	x := t.val(in.X)
	var ok, v string
	if _, isIface := in.AssertedType.Underlying().(*types.Interface); isIface {
		// interface-to-interface: dynamic type membership not modelled
		okc := t.c.declare(t.c.fresh("implements"), "Bool")
		ok = and("(not (= (itag "+x+") 0))", okc)
		v = x
		if impls := t.g.implementors(in.AssertedType); impls != nil {
			// ok iff the tag is one of the module's implementing types (closed-world for module types)
		}
	} else {
		tag := t.g.tagOf(in.AssertedType)
		ok = fmt.Sprintf("(= (itag %s) %d)", x, tag)
		v = t.ifacePayload(in.AssertedType, x)
	}
	if in.CommaOk {
		okn := t.c.define(t.c.fresh(in.Name()+".ok"), "Bool", ok)
		vn := t.c.define(t.c.fresh(in.Name()+".v"), t.sortOf(in.AssertedType), ite(okn, v, t.g.zero(t.c, in.AssertedType)))
		t.vals[in] = []string{vn, okn}
		return
	}
	t.oblige("safe.assert", "assert:"+t.describe(in.X)+".("+t.g.typeKey(in.AssertedType)+")", in.Pos(), ok, "type assertion may panic")
	r := t.setVal(in, v)
	t.assumeLoaded(r, in.Type())
	t.assumeTypeInv(r, in.Type())
}

func (t *fnTrans) index(in *ssa.Index) {
	x := t.val(in.X)
	i := t.val(in.Index)
	switch u := in.X.Type().Underlying().(type) {
	case *types.Array:
		t.oblige("safe.index", "index:"+t.describe(in.X), in.Pos(), fmt.Sprintf("(and (<= 0 %s) (< %s %d))", i, i, u.Len()), "")
		t.setVal(in, sel(x, i))
	case *types.Basic: // string
		t.oblige("safe.index", "index:"+t.describe(in.X), in.Pos(), fmt.Sprintf("(and (<= 0 %s) (< %s (str_len %s)))", i, i, x), "")
		v := t.setVal(in, sel("(str_bytes "+x+")", i))
		t.assume("(and (<= 0 " + v + ") (<= " + v + " 255))")
	default:
		t.abstract("index " + in.String())
		t.freshVal(in)
	}
}

func (t *fnTrans) indexAddr(in *ssa.IndexAddr) {
	x := t.val(in.X)
	i := t.val(in.Index)
	switch u := in.X.Type().Underlying().(type) {
	case *types.Slice:
		t.oblige("safe.index", "index:"+t.describe(in.X), in.Pos(), fmt.Sprintf("(and (<= 0 %s) (< %s (sl_len %s)))", i, i, x), "")
		hv := t.elemHV(u.Elem())
		idx := "(ix (sl_off " + x + ") " + i + ")"
		t.vals[in] = []string{t.c.declare(t.c.fresh(in.Name()), "Int")}
		t.locs[in] = &loc{kind: locElem, base: "(sl_arr " + x + ")", idx: idx, hv: hv, typ: u.Elem(), baseVal: in.X}
		if _, isSt := t.isStruct(u.Elem()); isSt {
			// slice of structs: element address is a struct ref
			ea := t.c.eaddrFun()
			term := "(" + ea + " (sl_arr " + x + ") " + idx + ")"
			t.vals[in] = []string{term}
			t.locs[in] = &loc{kind: locCell, base: term, typ: u.Elem(), baseVal: in.X}
		}
	case *types.Pointer:
		at := u.Elem().Underlying().(*types.Array)
		t.nilCheck(in.X, x, in.Pos(), "index")
		t.oblige("safe.index", "index:"+t.describe(in.X), in.Pos(), fmt.Sprintf("(and (<= 0 %s) (< %s %d))", i, i, at.Len()), "")
		hv := t.elemHV(at.Elem())
		base := x
		if l, ok := t.locs[in.X]; ok && l.kind == locCell {
			base = l.base
		}
		t.vals[in] = []string{t.c.declare(t.c.fresh(in.Name()), "Int")}
		t.locs[in] = &loc{kind: locElem, base: base, idx: i, hv: hv, typ: at.Elem(), baseVal: in.X}
		if _, isSt := t.isStruct(at.Elem()); isSt {
			ea := t.c.eaddrFun()
			term := "(" + ea + " " + base + " " + i + ")"
			t.vals[in] = []string{term}
			t.locs[in] = &loc{kind: locCell, base: term, typ: at.Elem(), baseVal: in.X}
		}
	default:
		panic("indexaddr on " + in.X.Type().String())
	}
}

func (t *fnTrans) slice(in *ssa.Slice) {
	x := t.val(in.X)
	lo := "0"
	if in.Low != nil {
		lo = t.val(in.Low)
	}
	switch u := in.X.Type().Underlying().(type) {
	case *types.Slice:
		hi := "(sl_len " + x + ")"
		if in.High != nil {
			hi = t.val(in.High)
		}
		capx := "(sl_cap " + x + ")"
		mx := capx
		if in.Max != nil {
			mx = t.val(in.Max)
		}
		goal := fmt.Sprintf("(and (<= 0 %s) (<= %s %s) (<= %s %s) (<= %s %s))", lo, lo, hi, hi, mx, mx, capx)
		t.oblige("safe.slice", "slice:"+t.describe(in.X), in.Pos(), goal, "")
		t.setVal(in, fmt.Sprintf("(mk_slice (sl_arr %s) (+ (sl_off %s) %s) (- %s %s) (- %s %s))", x, x, lo, hi, lo, mx, lo))
	case *types.Pointer:
		at := u.Elem().Underlying().(*types.Array)
		t.nilCheck(in.X, x, in.Pos(), "slice")
		n := fmt.Sprint(at.Len())
		hi := n
		if in.High != nil {
			hi = t.val(in.High)
		}
		mx := n
		if in.Max != nil {
			mx = t.val(in.Max)
		}
		goal := fmt.Sprintf("(and (<= 0 %s) (<= %s %s) (<= %s %s) (<= %s %s))", lo, lo, hi, hi, mx, mx, n)
		t.oblige("safe.slice", "slice:"+t.describe(in.X), in.Pos(), goal, "")
		base := x
		if l, ok := t.locs[in.X]; ok && l.kind == locCell {
			base = l.base
			// slicing an array that is a struct field hands out a writable alias of the field
			t.guardAccess(l, true, in.Pos())
		}
		t.setVal(in, fmt.Sprintf("(mk_slice %s %s (- %s %s) (- %s %s))", base, lo, hi, lo, mx, lo))
	case *types.Basic: // string
		hi := "(str_len " + x + ")"
		if in.High != nil {
			hi = t.val(in.High)
		}
		goal := fmt.Sprintf("(and (<= 0 %s) (<= %s %s) (<= %s (str_len %s)))", lo, lo, hi, hi, x)
		t.oblige("safe.slice", "slice:"+t.describe(in.X), in.Pos(), goal, "")
		sub := t.c.declareFun("str_sub", []string{"Str", "Int", "Int"}, "Str")
		r := t.setVal(in, "("+sub+" "+x+" "+lo+" "+hi+")")
		t.assume(fmt.Sprintf("(= (str_len %s) (- %s %s))", r, hi, lo))
	default:
		panic("slice on " + in.X.Type().String())
	}
}

func (t *fnTrans) mapHVs(m *types.Map) (dom, val, ln string) {
	ks, vs := t.sortOf(m.Key()), t.sortOf(m.Elem())
	dn, vn := t.g.mapVarNames(m)
	dom = t.h.reg(dn, "(Array Int (Array "+ks+" Bool))")
	val = t.h.reg(vn, "(Array Int (Array "+ks+" "+vs+"))")
	ln = t.h.reg("ML", "(Array Int Int)")
	return
}

func (t *fnTrans) lookup(in *ssa.Lookup) {
	x := t.val(in.X)
	k := t.val(in.Index)
	m, ok := in.X.Type().Underlying().(*types.Map)
	if !ok {
		// string index
		t.oblige("safe.index", "index:"+t.describe(in.X), in.Pos(), fmt.Sprintf("(and (<= 0 %s) (< %s (str_len %s)))", k, k, x), "")
		v := t.setVal(in, sel("(str_bytes "+x+")", k))
		t.assume("(and (<= 0 " + v + ") (<= " + v + " 255))")
		return
	}
	dom, val, _ := t.mapHVs(m)
	t.guardMap(in.X, false, in.Pos())
	present := sel(sel(t.h.get(t.cur, dom), x), k)
	v := sel(sel(t.h.get(t.cur, val), x), k)
	if in.CommaOk {
		okn := t.c.define(t.c.fresh(in.Name()+".ok"), "Bool", present)
		vn := t.c.define(t.c.fresh(in.Name()+".v"), t.sortOf(m.Elem()), ite(okn, v, t.g.zero(t.c, m.Elem())))
		t.vals[in] = []string{vn, okn}
		t.assumeLoaded(vn, m.Elem())
		t.assumeMapVal(vn, okn, m)
		return
	}
	vn := t.setVal(in, ite(present, v, t.g.zero(t.c, m.Elem())))
	t.assumeLoaded(vn, m.Elem())
	t.assumeMapVal(vn, present, m)
}

// values stored in maps of pointers are non-nil (policy: no nil entries are ever stored)
func (t *fnTrans) assumeMapVal(v, present string, m *types.Map) {
	if _, ok := m.Elem().Underlying().(*types.Pointer); ok {
		t.assume(implies(present, "(not (= "+v+" 0))"))
	}
}

func (t *fnTrans) mapUpdate(in *ssa.MapUpdate) {
	x := t.val(in.Map)
	k := t.val(in.Key)
	v := t.val(in.Value)
	m := in.Map.Type().Underlying().(*types.Map)
	dom, val, ln := t.mapHVs(m)
	t.nilCheck(in.Map, x, in.Pos(), "mapupdate")
	t.guardMap(in.Map, true, in.Pos())
	d := t.h.get(t.cur, dom)
	was := sel(sel(d, x), k)
	l := t.h.get(t.cur, ln)
	t.h.set(t.cur, ln, store(l, x, "(+ "+sel(l, x)+" "+ite(was, "0", "1")+")"))
	t.h.set(t.cur, dom, store(d, x, store(sel(d, x), k, "true")))
	vv := t.h.get(t.cur, val)
	t.h.set(t.cur, val, store(vv, x, store(sel(vv, x), k, v)))
}

func (t *fnTrans) makeMap(in *ssa.MakeMap) {
	r := t.newRef(in.Name())
	t.vals[in] = []string{r}
	t.local[in] = true
	m := in.Type().Underlying().(*types.Map)
	dom, _, ln := t.mapHVs(m)
	ks := t.sortOf(m.Key())
	t.h.set(t.cur, dom, store(t.h.get(t.cur, dom), r, "((as const (Array "+ks+" Bool)) false)"))
	t.h.set(t.cur, ln, store(t.h.get(t.cur, ln), r, "0"))
}

func (t *fnTrans) makeSlice(in *ssa.MakeSlice) {
	ln := t.val(in.Len)
	cp := t.val(in.Cap)
	t.oblige("safe.makeslice", "makeslice", in.Pos(), fmt.Sprintf("(and (<= 0 %s) (<= %s %s))", ln, ln, cp), "")
	t.ghostAlloc(cp, in.Pos())
	arr := t.newRef(in.Name() + ".arr")
	sl := in.Type().Underlying().(*types.Slice)
	hv := t.elemHV(sl.Elem())
	es := t.sortOf(sl.Elem())
	t.h.set(t.cur, hv, store(t.h.get(t.cur, hv), arr, "((as const (Array Int "+es+")) "+t.g.zero(t.c, sl.Elem())+")"))
	t.setVal(in, fmt.Sprintf("(mk_slice %s 0 %s %s)", arr, ln, cp))
}

func (t *fnTrans) makeChan(in *ssa.MakeChan) {
	sz := t.val(in.Size)
	t.oblige("safe.makechan", "makechan", in.Pos(), "(<= 0 "+sz+")", "make(chan, n) panics for n < 0")
	r := t.newRef(in.Name())
	t.vals[in] = []string{r}
	t.assume("(= (chan_cap " + r + ") " + sz + ")")
	cl := t.h.get(t.cur, "chclosed")
	t.h.set(t.cur, "chclosed", store(cl, r, "false"))
	t.tokMake(r)
}

func (t *fnTrans) rangeInstr(in *ssa.Range) {
	r := t.newRef(in.Name())
	t.vals[in] = []string{r}
	if m, ok := in.X.Type().Underlying().(*types.Map); ok {
		ks := t.sortOf(m.Key())
		hv := t.h.reg("RV:"+bare(ks), "(Array Int (Array "+ks+" Bool))")
		t.h.set(t.cur, hv, store(t.h.get(t.cur, hv), r, "((as const (Array "+ks+" Bool)) false)"))
		t.guardMap(in.X, false, in.Pos())
	}
	t.rangeOf[in] = in
}

func (t *fnTrans) next(in *ssa.Next) {
	rng, _ := in.Iter.(*ssa.Range)
	if rng == nil {
		panic("next without range")
	}
	it := t.val(in.Iter)
	m, isMap := rng.X.Type().Underlying().(*types.Map)
	if !isMap {
		// string range
		t.abstract("range over string")
		ok := t.c.declare(t.c.fresh(in.Name()+".ok"), "Bool")
		k := t.c.declare(t.c.fresh(in.Name()+".k"), "Int")
		v := t.c.declare(t.c.fresh(in.Name()+".v"), "Int")
		t.vals[in] = []string{ok, k, v}
		return
	}
	x := t.val(rng.X)
	ks := t.sortOf(m.Key())
	dom, val, _ := t.mapHVs(m)
	hv := "RV:" + bare(ks)
	ok := t.c.declare(t.c.fresh(in.Name()+".ok"), "Bool")
	k := t.c.declare(t.c.fresh(in.Name()+".k"), ks)
	vis := sel(t.h.get(t.cur, hv), it)
	d := sel(t.h.get(t.cur, dom), x)
	t.assume(implies(ok, and(sel(d, k), not(sel(vis, k)))))
	// exhausted: every present key was visited
	kk := q(t.c.fresh("kq"))
	t.assume(implies(not(ok), fmt.Sprintf("(forall ((%s %s)) (=> (select %s %s) (select %s %s)))", kk, ks, d, kk, vis, kk)))
	v := t.c.define(t.c.fresh(in.Name()+".v"), t.sortOf(m.Elem()), sel(sel(t.h.get(t.cur, val), x), k))
	t.assumeType(k, m.Key())
	t.assumeLoaded(v, m.Elem())
	t.assumeMapVal(v, ok, m)
	rv := t.h.get(t.cur, hv)
	t.h.set(t.cur, hv, store(rv, it, store(sel(rv, it), k, "true")))
	t.vals[in] = []string{ok, k, v}
}

func (t *fnTrans) binop(in *ssa.BinOp) {
	x, y := t.val(in.X), t.val(in.Y)
	ty := in.X.Type()
	isInt := false
	isStr := false
	isFloat := false
	if b, ok := ty.Underlying().(*types.Basic); ok {
		isInt = b.Info()&types.IsInteger != 0
		isStr = b.Info()&types.IsString != 0
		isFloat = b.Info()&types.IsFloat != 0
	}
	wrap := func(e string) string {
		if bits, uns, ok := intBits(in.Type()); ok && uns {
			return "(mod " + e + " " + pow2(bits) + ")"
		}
		return e
	}
	switch in.Op {
	case token.ADD:
		if isStr {
			r := t.setVal(in, "(str_concat "+x+" "+y+")")
			t.assume(fmt.Sprintf("(= (str_len %s) (+ (str_len %s) (str_len %s)))", r, x, y))
			return
		}
		if isFloat {
			t.setVal(in, "(+ "+x+" "+y+")")
			return
		}
		t.setVal(in, wrap("(+ "+x+" "+y+")"))
	case token.SUB:
		if isFloat {
			t.setVal(in, "(- "+x+" "+y+")")
			return
		}
		t.setVal(in, wrap("(- "+x+" "+y+")"))
	case token.MUL:
		if isFloat {
			t.setVal(in, "(* "+x+" "+y+")")
			return
		}
		t.setVal(in, wrap("(* "+x+" "+y+")"))
	case token.QUO:
		if isFloat {
			t.setVal(in, "(/ "+x+" "+y+")")
			return
		}
		t.oblige("safe.div", "div", in.Pos(), "(not (= "+y+" 0))", "")
		t.setVal(in, "(tdiv "+x+" "+y+")")
	case token.REM:
		t.oblige("safe.div", "rem", in.Pos(), "(not (= "+y+" 0))", "")
		t.setVal(in, "(trem "+x+" "+y+")")
	case token.AND, token.OR, token.XOR, token.AND_NOT, token.SHL, token.SHR:
		t.bitop(in, x, y)
	case token.EQL:
		t.setVal(in, eq(x, y))
	case token.NEQ:
		t.setVal(in, not(eq(x, y)))
	case token.LSS, token.LEQ, token.GTR, token.GEQ:
		if isInt || isFloat {
			op := map[token.Token]string{token.LSS: "<", token.LEQ: "<=", token.GTR: ">", token.GEQ: ">="}[in.Op]
			t.setVal(in, "("+op+" "+x+" "+y+")")
		} else {
			t.abstract("string comparison")
			t.freshVal(in)
		}
	default:
		panic("binop " + in.Op.String())
	}
}

func constInt(v ssa.Value) (int64, bool) {
	if c, ok := v.(*ssa.Const); ok && c.Value != nil && c.Value.Kind() == constant.Int {
		if n, exact := constant.Int64Val(c.Value); exact {
			return n, true
		}
		if u, exact := constant.Uint64Val(c.Value); exact && u <= 1<<63-1 {
			return int64(u), true
		}
	}
	return 0, false
}

func constUint(v ssa.Value) (uint64, bool) {
	if c, ok := v.(*ssa.Const); ok && c.Value != nil && c.Value.Kind() == constant.Int {
		if u, exact := constant.Uint64Val(c.Value); exact {
			return u, true
		}
	}
	return 0, false
}

// maskTerm: x & mask for a constant mask, as arithmetic over runs of one-bits
// (x must be non-negative).
func maskTerm(x string, mask uint64) string {
	var parts []string
	i := 0
	for i < 64 {
		if mask&(1<<uint(i)) == 0 {
			i++
			continue
		}
		lo := i
		for i < 64 && mask&(1<<uint(i)) != 0 {
			i++
		}
		w := i - lo
		part := x
		if lo > 0 {
			part = "(div " + x + " " + pow2(lo) + ")"
		}
		part = "(mod " + part + " " + pow2(w) + ")"
		if lo > 0 {
			part = "(* " + pow2(lo) + " " + part + ")"
		}
		parts = append(parts, part)
	}
	if len(parts) == 0 {
		return "0"
	}
	if len(parts) == 1 {
		return parts[0]
	}
	return "(+ " + strings.Join(parts, " ") + ")"
}

func (t *fnTrans) bitop(in *ssa.BinOp, x, y string) {
	bits, uns, _ := intBits(in.Type())
	nonneg := func(v ssa.Value, term string) bool {
		_, u, ok := intBits(v.Type())
		if ok && u {
			return true
		}
		if n, ok := constInt(v); ok && n >= 0 {
			return true
		}
		return false
	}
	switch in.Op {
	case token.SHL:
		if k, ok := constInt(in.Y); ok && k >= 0 && k < 64 {
			e := "(* " + x + " " + pow2(int(k)) + ")"
			if uns {
				e = "(mod " + e + " " + pow2(bits) + ")"
			}
			t.setVal(in, e)
			return
		}
	case token.SHR:
		if k, ok := constInt(in.Y); ok && k >= 0 && k < 64 {
			t.setVal(in, "(div "+x+" "+pow2(int(k))+")")
			return
		}
	case token.AND:
		if m, ok := constUint(in.Y); ok && nonneg(in.X, x) {
			t.setVal(in, maskTerm(x, m))
			return
		}
		if m, ok := constUint(in.X); ok && nonneg(in.Y, y) {
			t.setVal(in, maskTerm(y, m))
			return
		}
	case token.OR:
		if m, ok := constUint(in.Y); ok && nonneg(in.X, x) {
			t.setVal(in, "(+ "+x+" (- "+fmt.Sprint(m)+" "+maskTerm(x, m)+"))")
			return
		}
		if m, ok := constUint(in.X); ok && nonneg(in.Y, y) {
			t.setVal(in, "(+ "+y+" (- "+fmt.Sprint(m)+" "+maskTerm(y, m)+"))")
			return
		}
	case token.AND_NOT:
		if m, ok := constUint(in.Y); ok && nonneg(in.X, x) {
			t.setVal(in, "(- "+x+" "+maskTerm(x, m)+")")
			return
		}
	}
	t.abstract("bit operation " + in.String())
	t.freshVal(in)
}

func (t *fnTrans) ret(in *ssa.Return) {
	if site := t.sites[in]; site != "" {
		t.siteBefore(site, in, nil)
	}
	var rs []string
	for _, r := range in.Results {
		rs = append(rs, t.val(r))
	}
	t.atReturn(in, rs)
}

func exprName(e interface{}) string {
	type namer interface{ String() string }
	switch x := e.(type) {
	case interface{ End() token.Pos }:
		_ = x
	}
	return identName(e)
}


// visibleVars: source-level names (parameters and locals defined so far that
// dominate the current point) with scalar SMT terms, for counterexample reports.
func (t *fnTrans) visibleVars() map[string]string {
	out := map[string]string{}
	for _, p := range t.fn.Params {
		if s := t.sortOf(p.Type()); s == "Int" || s == "Bool" {
			out[p.Name()] = t.val(p)
		} else if s == "Iface" {
			// interface-typed inputs: dynamic type tag and scalar payload (for replays)
			out[p.Name()+".tag"] = "(itag " + t.val(p) + ")"
			out[p.Name()+".int"] = "(iint " + t.val(p) + ")"
			out[p.Name()+".bool"] = "(ibool " + t.val(p) + ")"
		}
	}
	e := &evalCtx{t: t, fn: t.fn, st: t.cur, old: t.entry, binds: map[string]sval{}, locals: true}
	for name := range t.names {
		if v, ok := e.local(name); ok && (v.sort == "Int" || v.sort == "Bool") {
			out[name] = v.term
		}
		if v, ok := e.local(name); ok && v.sort == "Slice" {
			out["len("+name+")"] = "(sl_len " + v.term + ")"
		}
	}
	// lengths of the Header/Body of message-typed parameters
	for _, p := range t.fn.Params {
		if t.g.isMsgPtr(p.Type()) {
			for _, f := range []string{"Body", "Header"} {
				if hv, _, ok := t.fieldHVByName(p.Type(), f); ok {
					out["len("+p.Name()+"."+f+")"] = "(sl_len " + sel(t.h.get(t.cur, hv), t.val(p)) + ")"
				}
			}
		}
	}
	for name, v := range t.ghostVals {
		if v.sort == "Slice" {
			out["len("+name+")"] = "(sl_len " + v.term + ")"
		} else if v.sort == "Int" || v.sort == "Bool" {
			out[name] = v.term
		}
	}
	return out
}


// map contents live in heaps keyed by the Go map type (maps of different types never alias)
func (g *Gen) mapVarNames(m *types.Map) (dom, val string) {
	k := sanitize(g.typeKey(m))
	return "MD:" + k, "MV:" + k
}


// loopExitChecks: a loop declared `complete` may only be left from its header
// (i.e. when its range / condition is exhausted), never by break or return.
func (t *fnTrans) loopExitChecks(b *ssa.BasicBlock) {
	if t.contract == nil || len(t.contract.loopComplete) == 0 {
		return
	}
	for _, li := range t.loops {
		if !t.contract.loopComplete[li.ord] || !li.blocks[b] || b == li.header {
			continue
		}
		for _, s := range b.Succs {
			if li.blocks[s] {
				continue
			}
			save := t.cur
			t.cur = t.h.child(t.out[b])
			t.cur.reach = t.edgeTerm(b, s)
			t.oblige("loop.complete", fmt.Sprintf("loop%d:early-exit", li.ord), b.Instrs[len(b.Instrs)-1].Pos(), "false", "the loop must visit every element: it is left before its range is exhausted")
			t.cur = save
		}
	}
}


// ifSite: assertions attached to the two outcomes of a branch: `at if#n.then assert E`.
func (t *fnTrans) ifSite(in *ssa.If) {
	if t.contract == nil {
		return
	}
	site := t.sites[in]
	if site == "" {
		return
	}
	t.siteState[site] = t.cur
	c := t.val(in.Cond)
	for _, br := range []struct{ suffix, cond string }{{".then", c}, {".else", not(c)}} {
		for k, sl := range t.contract.at[site+br.suffix] {
			e := t.selfCtx()
			if term, ok := t.evalBool(e, sl); ok {
				save := t.cur
				t.cur = t.h.child(save)
				t.cur.reach = and(save.reach, br.cond)
				t.oblige("site", fmt.Sprintf("at:%s%s:%d", site, br.suffix, k+1), in.Pos(), term, "assert at "+site+br.suffix+": "+sl.text)
				t.cur = save
			}
		}
	}
	t.cur = t.h.child(t.cur)
}

// knownFnKey: key names a function of the module (or the bound-method wrapper of one).
func (g *Gen) knownFnKey(k string) bool {
	k = strings.TrimSuffix(k, "$bound")
	for _, f := range g.allFuncs {
		if g.fnKey(f) == k {
			return true
		}
	}
	return false
}
