package main

import (
	"go/token"

	"golang.org/x/tools/go/ssa"
)

// Contract machinery (requires/ensures/invariants/site assertions).

func (t *fnTrans) contractEntry() {}

func (t *fnTrans) contractReturn(in *ssa.Return, rs []string) {}

func (t *fnTrans) loopInvariants(li *loopInfo, kind string, phiVals map[*ssa.Phi]string, pos token.Pos) {}

func (t *fnTrans) loopInvariantsAssume(li *loopInfo) {}

func (t *fnTrans) siteBefore(site string, in ssa.Instruction, cc *ssa.CallCommon) {}

func (t *fnTrans) siteAfter(site string, in ssa.Instruction, cc *ssa.CallCommon, res ssa.Value) {
	t.siteState[site] = t.cur
	t.cur = t.h.child(t.cur)
}

func (t *fnTrans) monitorAssume(fa *ssa.FieldAddr, field string) {}

func (t *fnTrans) monitorAssumeField(field string) {}

func (t *fnTrans) monitorAssert(in ssa.Instruction, fa *ssa.FieldAddr, field, nm string) {}

func (t *fnTrans) monitorAssertField(in ssa.Instruction, field, nm string) {}

func (t *fnTrans) contractCall(in ssa.Instruction, callee *ssa.Function, cc *ssa.CallCommon, res ssa.Value, mc *ssa.MakeClosure) bool {
	return false
}

func (t *fnTrans) contractInvoke(in ssa.Instruction, cc *ssa.CallCommon, res ssa.Value, tgts []*ssa.Function) bool {
	return false
}

func (t *fnTrans) modVars(fc *FuncContract, callee *ssa.Function) []string { return fc.modifies }
