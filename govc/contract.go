package main

import (
	"sort"
	"regexp"
	"fmt"
	"go/token"
	"go/types"
	"strings"

	"golang.org/x/tools/go/ssa"
)

// Contract machinery: requires / ensures / holds, struct (monitor) invariants,
// loop invariants, site assertions, ghost snapshots, modular calls.

func (t *fnTrans) selfCtx() *evalCtx {
	return &evalCtx{t: t, fn: t.fn, st: t.cur, old: t.entry, binds: map[string]sval{}, locals: true}
}

// lockKeyExpr evaluates a lock path (a spec expression such as s.Mutex or
// c.s.Mutex) to its ghost key, plus the owning object and "Type.field".
func (t *fnTrans) lockKeyExpr(e *evalCtx, path string) (key string, owner sval, field string, ok bool) {
	defer func() {
		if r := recover(); r != nil {
			ok = false
		}
	}()
	x, err := parseSpec(path)
	if err != nil {
		return "", sval{}, "", false
	}
	v := e.eval(x)
	if !v.addr {
		return "", sval{}, "", false
	}
	// owner = the expression minus its last selector
	if x.op == "sel" {
		owner = e.eval(x.args[0])
		field = t.g.typeKey(deref(owner.typ)) + "." + x.val
		// promoted through embedding? recompute the precise owning struct
		if obj, path, _ := types.LookupFieldOrMethod(owner.typ, true, e.pkgFor(owner.typ), x.val); obj != nil && len(path) > 1 {
			cur := owner
			for _, idx := range path[:len(path)-1] {
				cur = e.fieldStep(cur, idx)
			}
			owner = cur
			field = t.g.typeKey(deref(owner.typ)) + "." + x.val
		}
	}
	return v.term, owner, field, true
}

func (t *fnTrans) contractEntry() {
	fc := t.contract
	if fc == nil {
		return
	}
	e := t.selfCtx()
	e.locals = false
	e.st = t.cur
	for _, r := range append(append([]specLine{}, fc.requires...), fc.assumes...) {
		if term, ok := t.evalBool(e, r); ok {
			t.assume(term)
		}
	}
	for _, path := range fc.holds {
		if k, owner, lf, ok := t.lockKeyExpr(e, path); ok && owner.typ != nil {
			t.assumeInvariants(owner)
			t.foreignInvariants(lf, true, nil, "", &owner)
			t.noteForeignLock(lf, owner, k)
		}
	}
}

func (t *fnTrans) structAnnOf(T types.Type) *StructAnn {
	return t.g.ann.structs[t.g.typeKey(deref(T))]
}

func (t *fnTrans) assumeInvariants(obj sval) {
	sa := t.structAnnOf(obj.typ)
	if sa == nil {
		return
	}
	for _, inv := range sa.invs {
		e := &evalCtx{t: t, fn: t.fn, st: t.cur, old: t.entry, binds: map[string]sval{}, this: &obj}
		if term, ok := t.evalBool(e, inv); ok {
			t.assume(term)
		}
	}
}

func (t *fnTrans) assertInvariants(obj sval, pos token.Pos, disc string) {
	sa := t.structAnnOf(obj.typ)
	if sa == nil {
		return
	}
	for k, inv := range sa.invs {
		e := &evalCtx{t: t, fn: t.fn, st: t.cur, old: t.entry, binds: map[string]sval{}, this: &obj}
		if term, ok := t.evalBool(e, inv); ok {
			save := t.cur.reach
			t.oblige("monitor", fmt.Sprintf("%s:%s.inv%d", disc, sa.name, k+1), pos, term, "struct invariant must hold when the lock is released: "+inv.text)
			// do not let a failed invariant mask the rest: keep going under the original reach
			_ = save
		}
	}
}

func (t *fnTrans) contractReturn(in *ssa.Return, rs []string) {
	fc := t.contract
	var results []sval
	for i, r := range in.Results {
		results = append(results, sval{term: rs[i], typ: r.Type(), sort: t.sortOf(r.Type())})
	}
	site := t.sites[in]
	if fc != nil {
		e := &evalCtx{t: t, fn: t.fn, st: t.cur, old: t.entry, binds: map[string]sval{}, results: results}
		for _, path := range fc.holds {
			eOld := *e
			eOld.st = t.entry
			if _, owner, lf, ok := t.lockKeyExpr(&eOld, path); ok && owner.typ != nil {
				t.assertInvariants(owner, in.Pos(), "exit")
				t.foreignInvariants(lf, false, in, "exit", &owner)
			}
		}
		for k, en := range fc.ensures {
			if term, ok := t.evalBool(e, en); ok {
				t.oblige("post", fmt.Sprintf("post%d@%s", k+1, site), in.Pos(), term, "ensures "+en.text)
			}
		}
	}
	// behavioural subtyping: interface contracts this method implements
	for _, ic := range t.g.ifaceContractsFor(t.fn) {
		binds := map[string]sval{}
		sig := ic.method.Type().(*types.Signature)
		for i := 0; i < sig.Params().Len(); i++ {
			if i+1 < len(t.fn.Params) {
				p := t.fn.Params[i+1]
				if n := sig.Params().At(i).Name(); n != "" {
					binds[n] = sval{term: t.val(p), typ: p.Type(), sort: t.sortOf(p.Type())}
				}
				binds[fmt.Sprintf("arg%d", i)] = sval{term: t.val(p), typ: p.Type(), sort: t.sortOf(p.Type())}
			}
		}
		if len(t.fn.Params) > 0 {
			p := t.fn.Params[0]
			binds["self"] = sval{term: t.val(p), typ: p.Type(), sort: t.sortOf(p.Type())}
		}
		e := &evalCtx{t: t, fn: t.fn, st: t.cur, old: t.entry, binds: binds, results: results}
		for k, en := range ic.fc.ensures {
			if term, ok := t.evalBool(e, en); ok {
				t.oblige("subtype", fmt.Sprintf("%s.post%d@%s", ic.name, k+1, site), in.Pos(), term, "interface contract "+ic.name+": ensures "+en.text)
			}
		}
	}
	t.methodInvReturn(in)
	// objects with lock-guarded (foreign) invariants that were allocated here must satisfy them
	// when the function returns, whoever ends up holding them
	for _, b := range t.allBlocks() {
		for _, bi := range b.Instrs {
			a, ok := bi.(*ssa.Alloc)
			if !ok || !a.Heap {
				continue
			}
			if _, done := t.vals[a]; !done || !t.dominates(b, in.Block()) {
				continue
			}
			sa := t.structAnnOf(a.Type())
			if sa == nil || len(sa.invs) == 0 || !(t.g.hasForeignLock(sa) || t.g.isTypeInv(sa)) {
				continue
			}
			obj := sval{term: t.val(a), typ: a.Type(), sort: "Int"}
			for k, inv := range sa.invs {
				e := &evalCtx{t: t, fn: t.fn, st: t.cur, old: t.entry, binds: map[string]sval{}, this: &obj}
				if term, ok := t.evalBool(e, inv); ok {
					t.oblige("monitor", fmt.Sprintf("construct:%s.inv%d", sa.name, k+1), in.Pos(), term, "an object allocated here must satisfy its invariant when the function returns: "+inv.text)
				}
			}
		}
	}
	// objects constructed here and returned must satisfy their invariants
	for _, r := range in.Results {
		if a, ok := r.(*ssa.Alloc); ok && t.local[a] {
			obj := sval{term: t.val(a), typ: a.Type(), sort: "Int"}
			t.assertInvariants(obj, in.Pos(), "construct")
		}
		if mi, ok := r.(*ssa.MakeInterface); ok {
			if a, ok := mi.X.(*ssa.Alloc); ok && t.local[a] {
				obj := sval{term: t.val(a), typ: a.Type(), sort: "Int"}
				t.assertInvariants(obj, in.Pos(), "construct")
			}
		}
	}
}

type ifaceImpl struct {
	name   string
	fc     *FuncContract
	method *types.Func
}

func (g *Gen) ifaceContractsFor(fn *ssa.Function) []ifaceImpl {
	if r, ok := g.ifaceImplCache[fn]; ok {
		return r
	}
	var out []ifaceImpl
	defer func() { g.ifaceImplCache[fn] = out }()
	recv := fn.Signature.Recv()
	if recv == nil || fn.Parent() != nil {
		return nil
	}
	for key, fc := range g.ann.ifaces {
		// key: pkg.Iface.Method
		i := strings.LastIndex(key, ".")
		ik, mname := key[:i], key[i+1:]
		if mname != fn.Name() {
			continue
		}
		j := strings.LastIndex(ik, ".")
		it := g.lookupNamed(ik[:j], ik[j+1:])
		if it == nil {
			continue
		}
		iface, ok := it.Underlying().(*types.Interface)
		if !ok {
			continue
		}
		if !types.Implements(recv.Type(), iface) {
			continue
		}
		for k := 0; k < iface.NumMethods(); k++ {
			if iface.Method(k).Name() == mname {
				out = append(out, ifaceImpl{name: key, fc: fc, method: iface.Method(k)})
				fc.used = true
			}
		}
	}
	return out
}

func (g *Gen) lookupNamed(pkg, name string) types.Type {
	for _, p := range g.spkgs {
		if p == nil || g.relPkg(p.Pkg.Path()) != pkg {
			continue
		}
		if o := p.Pkg.Scope().Lookup(name); o != nil {
			return o.Type()
		}
	}
	return nil
}

// ---- loops -----------------------------------------------------------------------

func (t *fnTrans) loopInvariants(li *loopInfo, kind string, phiVals map[*ssa.Phi]string, pos token.Pos) {
	if t.contract == nil {
		return
	}
	for k, inv := range t.contract.loopInv[li.ord] {
		e := t.selfCtx()
		e.phi = phiVals
		save := t.curBlock
		t.curBlock = li.header
		term, ok := t.evalBool(e, inv)
		t.curBlock = save
		if ok {
			t.oblige(kind, fmt.Sprintf("loop%d:inv%d", li.ord, k+1), pos, term, "loop invariant "+inv.text)
		}
	}
}

func (t *fnTrans) loopInvariantsAssume(li *loopInfo) {
	t.autoInvariants(li)
	if t.contract == nil {
		return
	}
	for _, inv := range t.contract.loopInv[li.ord] {
		e := t.selfCtx()
		if term, ok := t.evalBool(e, inv); ok {
			t.assume(term)
		}
	}
}

// autoInvariants: a loop-carried integer that only ever moves by a positive
// (negative) constant stays >= (<=) its entry value. Sound for mathematical integers.
func (t *fnTrans) autoInvariants(li *loopInfo) {
	b := li.header
	for _, in := range b.Instrs {
		phi, ok := in.(*ssa.Phi)
		if !ok {
			break
		}
		if _, _, isInt := intBits(phi.Type()); !isInt {
			continue
		}
		dir := 0
		var entry []ssa.Value
		good := true
		for k, p := range b.Preds {
			ev := phi.Edges[k]
			if !isBackEdge(p, b) {
				entry = append(entry, ev)
				continue
			}
			d, ok := stepOf(ev, phi, li)
			if !ok || d == 0 {
				good = false
				break
			}
			s := 1
			if d < 0 {
				s = -1
			}
			if dir != 0 && dir != s {
				good = false
				break
			}
			dir = s
		}
		if !good || dir == 0 || len(entry) == 0 {
			continue
		}
		for _, ev := range entry {
			if _, def := t.vals[ev]; !def {
				if _, isC := ev.(*ssa.Const); !isC {
					good = false
				}
			}
		}
		if !good {
			continue
		}
		// with several entry edges use the weakest bound only when they agree
		if len(entry) != 1 {
			continue
		}
		x := t.val(phi)
		e0 := t.val(entry[0])
		if dir > 0 {
			t.assume("(>= " + x + " " + e0 + ")")
		} else {
			t.assume("(<= " + x + " " + e0 + ")")
		}
	}
}

// stepOf: v == phi + c along every path inside the loop (c constant; possibly via inner phis that all add the same sign)
func stepOf(v ssa.Value, phi *ssa.Phi, li *loopInfo) (int64, bool) {
	seen := map[ssa.Value]bool{}
	var walk func(v ssa.Value) (int64, bool)
	walk = func(v ssa.Value) (int64, bool) {
		if v == phi {
			return 0, true
		}
		if seen[v] {
			return 0, false
		}
		seen[v] = true
		switch x := v.(type) {
		case *ssa.BinOp:
			if x.Op == token.ADD || x.Op == token.SUB {
				if c, ok := constInt(x.Y); ok {
					d, ok2 := walk(x.X)
					if !ok2 {
						return 0, false
					}
					if x.Op == token.SUB {
						c = -c
					}
					return d + c, true
				}
			}
		case *ssa.Phi:
			if !li.blocks[x.Block()] {
				return 0, false
			}
			var dmin, dmax int64
			first := true
			for _, e := range x.Edges {
				d, ok := walk(e)
				if !ok {
					return 0, false
				}
				if first {
					dmin, dmax, first = d, d, false
				} else {
					if d < dmin {
						dmin = d
					}
					if d > dmax {
						dmax = d
					}
				}
			}
			if dmin > 0 {
				return dmin, true
			}
			if dmax < 0 {
				return dmax, true
			}
			if dmin >= 0 {
				return 1, dmax > 0 && dmin > 0
			}
			return 0, false
		}
		return 0, false
	}
	return walk(v)
}

// ---- sites -----------------------------------------------------------------------

func (t *fnTrans) siteBefore(site string, in ssa.Instruction, cc *ssa.CallCommon) {
	if t.contract == nil {
		return
	}
	t.curCallee = ""
	if cc != nil {
		if callee := t.g.staticCallee(cc); callee != nil {
			t.curCallee = t.g.fnKey(callee)
		}
	}
	for k, sl := range t.contract.atBefore[site] {
		e := t.selfCtx()
		if cc != nil {
			// arg0, arg1, ...: the actual arguments of the call at this site (receiver excluded for methods)
			args := cc.Args
			if !cc.IsInvoke() {
				if callee := t.g.staticCallee(cc); callee != nil && callee.Signature.Recv() != nil && len(args) > 0 {
					args = args[1:]
				}
			}
			for i, a := range args {
				e.binds[fmt.Sprintf("arg%d", i)] = sval{term: t.val(a), typ: a.Type(), sort: t.sortOf(a.Type())}
			}
			// recv: the receiver of the call (interface value of an invoke, or the first argument of a method call)
			if cc.IsInvoke() {
				e.binds["recv"] = sval{term: t.val(cc.Value), typ: cc.Value.Type(), sort: t.sortOf(cc.Value.Type())}
			} else if len(args) < len(cc.Args) {
				e.binds["recv"] = sval{term: t.val(cc.Args[0]), typ: cc.Args[0].Type(), sort: t.sortOf(cc.Args[0].Type())}
			}
		}
		if term, ok := t.evalBool(e, sl); ok {
			t.oblige("site", fmt.Sprintf("before:%s:%d", site, k+1), in.Pos(), term, "assert before "+site+": "+sl.text)
		}
	}
}

func (t *fnTrans) siteAfter(site string, in ssa.Instruction, cc *ssa.CallCommon, res ssa.Value) {
	t.siteState[site] = t.cur
	t.cur = t.h.child(t.cur)
	if t.contract == nil {
		return
	}
	fc := t.contract
	var siteResults []sval
	if res != nil {
		if vs, ok := t.vals[res]; ok {
			if tu, isTu := res.Type().(*types.Tuple); isTu {
				for i, term := range vs {
					siteResults = append(siteResults, sval{term: term, typ: tu.At(i).Type(), sort: t.sortOf(tu.At(i).Type())})
				}
			} else {
				siteResults = []sval{{term: vs[0], typ: res.Type(), sort: t.sortOf(res.Type())}}
			}
		}
	}
	for _, gl := range fc.ghost {
		// ghost <name> = <expr> at <site>
		name, expr, gsite, ok := splitGhost(gl.text)
		if !ok {
			t.g.ann.errs = append(t.g.ann.errs, fmt.Sprintf("%s:%d: ghost <name> = <expr> at <site>", gl.file, gl.line))
			continue
		}
		if gsite != site {
			continue
		}
		e := t.selfCtx()
		e.results = siteResults
		func() {
			defer func() {
				if r := recover(); r != nil {
					save := t.cur.reach
					o := t.oblige("contract", fmt.Sprintf("%s:%d", gl.file, gl.line), token.NoPos, "false", fmt.Sprintf("ghost %s cannot be evaluated on this code: %v", name, r))
					o.Trivial = false
					o.Reach = "true"
					t.cur.reach = save
				}
			}()
			x, err := parseSpec(expr)
			if err != nil {
				panic(err)
			}
			v := e.eval(x)
			v.st = t.siteState[site]
			t.ghostVals[name] = v
		}()
	}
	for _, sl := range fc.atSet[site] {
		// user ghost variable: `at <site> set name = expr` (state-based, so path-sensitive)
		i := strings.Index(sl.text, "=")
		if i < 0 {
			continue
		}
		name := strings.TrimSuffix(strings.TrimSpace(sl.text[:i]), ":bool")
		e := t.selfCtx()
		e.results = siteResults
		func() {
			defer func() {
				if r := recover(); r != nil {
					save := t.cur.reach
					o := t.oblige("contract", fmt.Sprintf("%s:%d", sl.file, sl.line), token.NoPos, "false", fmt.Sprintf("ghost update %s cannot be evaluated on this code: %v", name, r))
					o.Trivial = false
					o.Reach = "true"
					t.cur.reach = save
				}
			}()
			x, err := parseSpec(strings.TrimSpace(sl.text[i+1:]))
			if err != nil {
				panic(err)
			}
			v := e.eval(x)
			hv := t.h.reg("ghost:u:"+name, v.sort)
			t.h.set(t.cur, hv, v.term)
		}()
	}
	for _, sl := range fc.atAssume[site] {
		e := t.selfCtx()
		e.results = siteResults
		if term, ok := t.evalBool(e, sl); ok {
			t.assume(term)
		}
	}
	for k, sl := range fc.at[site] {
		e := t.selfCtx()
		e.results = siteResults
		if term, ok := t.evalBool(e, sl); ok {
			t.oblige("site", fmt.Sprintf("at:%s:%d", site, k+1), in.Pos(), term, "assert at "+site+": "+sl.text)
		}
	}
}

// unreachedGhost: a `ghost g = e at <site>` whose site has not been translated when a clause
// mentions g. Blocks are translated in a topological order of the loop-cut CFG, so the site is
// not on any path to the current point: on such paths g denotes an arbitrary value of its type
// (a clause has to guard its use with the condition under which the site runs). The type is
// found by evaluating e once in the entry state with fresh results of the site's call.
func (t *fnTrans) unreachedGhost(name string) (out sval, ok bool) {
	if t.contract == nil {
		return sval{}, false
	}
	if v, hit := t.ghostUnreached[name]; hit {
		return v, true
	}
	for _, gl := range t.contract.ghost {
		n, expr, gsite, gok := splitGhost(gl.text)
		if !gok || n != name {
			continue
		}
		var at ssa.Instruction
		for in, s := range t.sites {
			if s == gsite {
				at = in
			}
		}
		if at == nil {
			return sval{}, false
		}
		func() {
			defer func() {
				if r := recover(); r != nil {
					ok = false
				}
			}()
			e := &evalCtx{t: t, fn: t.fn, st: t.entry, old: t.entry, binds: map[string]sval{}, locals: false}
			if v, isVal := at.(ssa.Value); isVal {
				if tu, isTu := v.Type().(*types.Tuple); isTu {
					for i := 0; i < tu.Len(); i++ {
						e.results = append(e.results, sval{term: t.freshOf("ghost."+name, tu.At(i).Type()), typ: tu.At(i).Type(), sort: t.sortOf(tu.At(i).Type())})
					}
				} else if v.Type() != nil {
					e.results = []sval{{term: t.freshOf("ghost."+name, v.Type()), typ: v.Type(), sort: t.sortOf(v.Type())}}
				}
			}
			x, err := parseSpec(expr)
			if err != nil {
				panic(err)
			}
			v := e.inState(t.entry, func() sval { return e.eval(x) })
			if v.addr || v.sort == "" {
				return
			}
			var term string
			if v.typ != nil {
				term = t.freshOf("ghost.unreached."+name, v.typ)
			} else {
				term = t.c.declare(t.c.fresh("ghost.unreached."+name), v.sort)
			}
			out = sval{term: term, typ: v.typ, sort: v.sort, st: t.entry}
			ok = true
		}()
		if ok {
			if t.ghostUnreached == nil {
				t.ghostUnreached = map[string]sval{}
			}
			t.ghostUnreached[name] = out
		}
		return out, ok
	}
	return sval{}, false
}

// hasSite: the function (with the helpers translated in place) has a contract site of that name
func (t *fnTrans) hasSite(site string) bool {
	for _, s := range t.sites {
		if s == site {
			return true
		}
	}
	return false
}

func splitGhost(s string) (name, expr, site string, ok bool) {
	i := strings.Index(s, "=")
	j := strings.LastIndex(s, " at ")
	if i < 0 || j < i {
		return "", "", "", false
	}
	return strings.TrimSpace(s[:i]), strings.TrimSpace(s[i+1 : j]), strings.TrimSpace(s[j+4:]), true
}

// ---- monitor invariants at Lock / Unlock ----------------------------------------------

func (t *fnTrans) monitorAssume(fa *ssa.FieldAddr, field string) {
	obj := sval{term: t.val(fa.X), typ: fa.X.Type(), sort: "Int"}
	t.assumeInvariants(obj)
	t.foreignInvariants(field, true, nil, "", &obj)
	t.noteForeignLock(field, obj, t.val(fa))
}

func (t *fnTrans) monitorAssert(in ssa.Instruction, fa *ssa.FieldAddr, field, nm string) {
	if t.local[fa.X] {
		return
	}
	obj := sval{term: t.val(fa.X), typ: fa.X.Type(), sort: "Int"}
	t.assertInvariants(obj, in.Pos(), "unlock:"+nm)
	t.foreignInvariants(field, false, in, "unlock:"+nm, &obj)
}

func (t *fnTrans) monitorAssumeField(field string) {
	t.foreignInvariants(field, true, nil, "", t.condOwner)
}

func (t *fnTrans) monitorAssertField(in ssa.Instruction, field, nm string) {
	t.foreignInvariants(field, false, in, "wait:"+nm, t.condOwner)
}

// foreignInvariants: invariants of structs whose fields are guarded by a lock that lives in
// another object (context fields guarded by c.s.Mutex).  While nobody holds the lock every
// object whose lock path leads to that lock object satisfies its invariants:
//   assume (after Lock / Wait / a call that keeps the lock): forall o. o != nil && o.<path> == owner ==> inv(o)
//   assert (before Unlock / Wait / return of a `holds` function / call of one): the same for every
//          pointer to such a struct this function has had in hand (objects it never touched satisfy
//          it by the assumption and framing).
type foreignInv struct {
	sa        *StructAnn
	T         types.Type
	ownerPath string
}

func (g *Gen) foreignInvsFor(field string) []foreignInv {
	var out []foreignInv
	seen := map[string]bool{}
	for _, gf := range g.ann.byLock[field] {
		if gf.own || seen[gf.owner] {
			continue
		}
		sa := g.ann.structs[gf.owner]
		if sa == nil || len(sa.invs) == 0 {
			continue
		}
		fa := sa.fields[gf.field]
		if fa == nil || strings.HasPrefix(fa.lock, "global:") {
			continue
		}
		i := strings.LastIndex(fa.lock, ".")
		if i < 0 {
			continue
		}
		seen[gf.owner] = true
		out = append(out, foreignInv{sa: sa, T: gf.ownerT, ownerPath: fa.lock[:i]})
	}
	sort.Slice(out, func(i, j int) bool { return out[i].sa.key < out[j].sa.key })
	return out
}

func (g *Gen) hasForeignLock(sa *StructAnn) bool {
	for _, fa := range sa.fields {
		if fa.kind == "guarded" && strings.Contains(fa.lock, ".") && !strings.HasPrefix(fa.lock, "global:") {
			return true
		}
	}
	return false
}

var selPatRe = regexp.MustCompile(`\(select (\|[^|]*\||[^\s()]+) `)

func (t *fnTrans) foreignInvariants(field string, assume bool, in ssa.Instruction, disc string, owner *sval) {
	t.foreignInvariantsG(field, assume, token.NoPos, in, disc, owner, "")
}

// foreignLock: a lock (with foreign invariants attached) this function acquires or is entered with.
type foreignLock struct {
	field string
	owner sval
	key   string
}

func (t *fnTrans) noteForeignLock(field string, owner sval, key string) {
	if sa := t.structAnnOf(owner.typ); len(t.g.foreignInvsFor(field)) == 0 && (sa == nil || len(sa.invs) == 0) {
		return
	}
	for _, fl := range t.foreignLocks {
		if fl.field == field && fl.owner.term == owner.term {
			return
		}
	}
	t.foreignLocks = append(t.foreignLocks, foreignLock{field, owner, key})
}

// foreignLoop: the invariants of lock-guarded objects are implicit loop invariants while the lock is held
// (loops that cannot change the guarded fields keep the facts by framing and need nothing).
func (t *fnTrans) foreignLoop(assume bool, pos token.Pos, disc string, all bool, vars map[string]bool) {
	for i := range t.foreignLocks {
		fl := &t.foreignLocks[i]
		touched := all
		for _, fi := range t.g.foreignInvsFor(fl.field) {
			pre := "F:" + fi.sa.key + "."
			for hv := range vars {
				if strings.HasPrefix(hv, pre) {
					touched = true
				}
			}
		}
		guard := sel(t.h.get(t.cur, "held"), fl.key)
		// the owner's own invariants
		if sa := t.structAnnOf(fl.owner.typ); sa != nil && len(sa.invs) > 0 {
			own := all
			pre := "F:" + sa.key + "."
			for hv := range vars {
				if strings.HasPrefix(hv, pre) || strings.HasPrefix(hv, "M") {
					own = true
				}
			}
			if own {
				for k, inv := range sa.invs {
					e := &evalCtx{t: t, fn: t.fn, st: t.cur, old: t.entry, binds: map[string]sval{}, this: &fl.owner}
					t.quietSpec++
					term, ok := t.evalBool(e, inv)
					t.quietSpec--
					if !ok {
						continue
					}
					if assume {
						t.assume("(=> " + guard + " " + term + ")")
					} else {
						t.oblige("monitor", fmt.Sprintf("%s:%s.inv%d", disc, sa.name, k+1), pos, "(=> "+guard+" "+term+")", "struct invariant is an implicit loop invariant while the lock is held: "+inv.text)
					}
				}
			}
		}
		if !touched {
			continue
		}
		t.foreignInvariantsG(fl.field, assume, pos, nil, disc, &fl.owner, guard)
	}
}

func (t *fnTrans) foreignInvariantsG(field string, assume bool, pos token.Pos, in ssa.Instruction, disc string, owner *sval, guard string) {
	if owner == nil {
		return
	}
	if in != nil {
		pos = in.Pos()
	}
	wrap := func(x string) string {
		if guard == "" {
			return x
		}
		return "(=> " + guard + " " + x + ")"
	}
	for _, fi := range t.g.foreignInvsFor(field) {
		pt := types.NewPointer(fi.T)
		ownerX, err := parseSpec(fi.ownerPath)
		if err != nil {
			continue
		}
		instance := func(o string, k int) (cond, body string, ok bool) {
			defer func() {
				if r := recover(); r != nil {
					ok = false
				}
			}()
			this := sval{term: o, typ: pt, sort: "Int"}
			e := &evalCtx{t: t, fn: t.fn, st: t.cur, old: t.entry, binds: map[string]sval{}, this: &this}
			ov := e.eval(ownerX)
			cond = fmt.Sprintf("(and (not (= %s 0)) (= %s %s))", o, ov.term, owner.term)
			t.quietSpec++
			body, ok = t.evalBool(e, fi.sa.invs[k])
			t.quietSpec--
			return
		}
		if assume {
			for k := range fi.sa.invs {
				// declared as a constant too: type facts assumed while evaluating the loads mention it
				// outside the quantifier (true of any object); inside, the binder shadows it
				o := t.c.declare(t.c.fresh("o"), "Int")
				cond, body, ok := instance(o, k)
				if !ok {
					continue
				}
				pats := map[string]bool{}
				for _, m := range selPatRe.FindAllStringSubmatch(body+" "+cond, -1) {
					pats["(select "+m[1]+" "+o+")"] = true
				}
				var ps []string
				for p := range pats {
					if strings.Contains(body+" "+cond, p) {
						ps = append(ps, ":pattern ("+p+")")
					}
				}
				sort.Strings(ps)
				if len(ps) == 0 {
					t.assume(wrap(fmt.Sprintf("(forall ((%s Int)) (=> %s %s))", o, cond, body)))
				} else {
					t.assume(wrap(fmt.Sprintf("(forall ((%s Int)) (! (=> %s %s) %s))", o, cond, body, strings.Join(ps, " "))))
				}
			}
			continue
		}
		// every pointer to such a struct the function has had in hand so far
		var objs []string
		seenT := map[string]bool{}
		for v, terms := range t.vals {
			if len(terms) != 1 || seenT[terms[0]] {
				continue
			}
			p, isPtr := v.Type().Underlying().(*types.Pointer)
			if !isPtr || !types.Identical(p.Elem(), fi.T) {
				continue
			}
			seenT[terms[0]] = true
			objs = append(objs, terms[0])
		}
		sort.Strings(objs)
		if len(objs) == 0 {
			continue
		}
		for k, inv := range fi.sa.invs {
			var conj []string
			for _, o := range objs {
				cond, body, ok := instance(o, k)
				if !ok {
					// not evaluable on this code: reported once, loudly
					t.evalBool(&evalCtx{t: t, fn: t.fn, st: t.cur, old: t.entry, binds: map[string]sval{}, this: &sval{term: o, typ: pt, sort: "Int"}}, inv)
					conj = nil
					break
				}
				conj = append(conj, fmt.Sprintf("(=> %s %s)", cond, body))
			}
			if len(conj) == 0 {
				continue
			}
			t.oblige("monitor", fmt.Sprintf("%s:%s.inv%d", disc, fi.sa.name, k+1), pos, wrap(and(conj...)), "invariant of every "+fi.sa.name+" guarded by this lock must hold when the lock is given up: "+inv.text)
		}
	}
}

// ---- modular calls ---------------------------------------------------------------------

func (t *fnTrans) calleeBinds(callee *ssa.Function, cc *ssa.CallCommon) map[string]sval {
	binds := map[string]sval{}
	for i, p := range callee.Params {
		if i < len(cc.Args) {
			binds[p.Name()] = sval{term: t.val(cc.Args[i]), typ: p.Type(), sort: t.sortOf(p.Type())}
		}
	}
	return binds
}

// resolveMods maps `modifies` entries to heap variable names.
//   T.f  -> F:<pkg>.T.f     bytes -> E:Int     none -> nothing     raw heap names pass through
func (t *fnTrans) modVars(fc *FuncContract, callee *ssa.Function) []string {
	var out []string
	for _, m := range fc.modifies {
		switch {
		case m == "none":
		case m == "bytes":
			out = append(out, "E:Int")
		case m == "chclosed" || m == "ML" || strings.Contains(m, ":"):
			out = append(out, m)
		default:
			out = append(out, "F:"+fc.pkg+"."+m)
		}
	}
	return out
}

func (t *fnTrans) contractCall(in ssa.Instruction, callee *ssa.Function, cc *ssa.CallCommon, res ssa.Value, mc *ssa.MakeClosure) bool {
	fc := t.g.contractOf(callee)
	if fc == nil {
		return false
	}
	if len(fc.requires) == 0 && len(fc.ensures) == 0 && len(fc.trusts) == 0 && len(fc.holds) == 0 && !fc.hasMods && !fc.pure && len(fc.acquires) == 0 && len(fc.releases) == 0 {
		return false // annotation only about the callee's own body (nullable etc.)
	}
	binds := t.calleeBinds(callee, cc)
	t.applyContract(in, fc, callee, t.g.summaries[callee], binds, cc, res, callee.Name(), t.g.fnKey(callee))
	t.ownCallHook(in, callee, cc, res)
	return true
}

func (t *fnTrans) contractInvoke(in ssa.Instruction, cc *ssa.CallCommon, res ssa.Value, tgts []*ssa.Function) bool {
	fc := t.g.ifaceContract(cc)
	if fc == nil {
		return false
	}
	binds := map[string]sval{}
	sig := cc.Method.Type().(*types.Signature)
	for i := 0; i < sig.Params().Len() && i < len(cc.Args); i++ {
		if n := sig.Params().At(i).Name(); n != "" {
			binds[n] = sval{term: t.val(cc.Args[i]), typ: sig.Params().At(i).Type(), sort: t.sortOf(sig.Params().At(i).Type())}
		}
		binds[fmt.Sprintf("arg%d", i)] = sval{term: t.val(cc.Args[i]), typ: sig.Params().At(i).Type(), sort: t.sortOf(sig.Params().At(i).Type())}
	}
	binds["self"] = sval{term: t.val(cc.Value), typ: cc.Value.Type(), sort: "Iface"}
	// union of summaries of the implementations
	sum := &summary{vars: map[string]bool{}, locks: map[string]bool{}}
	if len(tgts) == 0 {
		sum.all = true
	}
	for _, f := range tgts {
		s := t.g.summaries[f]
		if s == nil || s.all {
			sum.all = true
			continue
		}
		if s.blocks {
			sum.blocks = true
		}
		for v := range s.vars {
			sum.vars[v] = true
		}
		for v := range s.locks {
			sum.locks[v] = true
		}
	}
	var anyFn *ssa.Function
	if len(tgts) > 0 {
		anyFn = tgts[0]
	}
	t.applyContract(in, fc, anyFn, sum, binds, cc, res, cc.Method.Name(), "invoke "+t.g.typeKey(cc.Value.Type())+"."+cc.Method.Name())
	t.ownInvokeHook(in, cc, res)
	return true
}

func (t *fnTrans) applyContract(in ssa.Instruction, fc *FuncContract, callee *ssa.Function, sum *summary, binds map[string]sval, cc *ssa.CallCommon, res ssa.Value, short, full string) {
	site := t.sites[in]
	if site == "" {
		site = "call:" + short
	}
	efn := callee
	if efn == nil {
		efn = t.fn
	}
	pre := &evalCtx{t: t, fn: efn, st: t.cur, old: t.cur, binds: binds, where: full}
	// locks the callee expects to be held
	var heldOwners []sval
	var heldFields []string
	for _, path := range fc.holds {
		if k, owner, lf, ok := t.lockKeyExpr(pre, path); ok {
			goal := sel(t.h.get(t.cur, "held"), k)
			if strings.Count(path, ".") >= 2 {
				goal = or(goal, t.heldOfType(lf))
			}
			t.oblige("pre", site+":holds:"+path, in.Pos(), goal, short+" must be called with "+path+" held")
			if owner.typ != nil {
				// the callee relies on (and re-establishes) the invariants of the lock's owner and of
				// the objects the lock guards: they must hold when it is called
				if !t.local[cc.Args[0]] || true {
					t.assertInvariants(owner, in.Pos(), site)
				}
				t.foreignInvariants(lf, false, in, site, &owner)
				heldOwners = append(heldOwners, owner)
				heldFields = append(heldFields, lf)
			}
		} else {
			t.g.ann.errs = append(t.g.ann.errs, fmt.Sprintf("%s: cannot resolve lock path %q of callee %s", t.key, path, full))
		}
	}
	for _, path := range fc.releases {
		if k, _, _, ok := t.lockKeyExpr(pre, path); ok {
			t.oblige("pre", site+":holds:"+path, in.Pos(), sel(t.h.get(t.cur, "held"), k), short+" must be called with "+path+" held")
		}
	}
	for k, r := range fc.requires {
		if term, ok := t.evalBool(pre, r); ok {
			t.oblige("pre", fmt.Sprintf("%s:req%d", site, k+1), in.Pos(), term, "precondition of "+short+": "+r.text)
		}
	}
	if sum != nil {
		if sum.blocks && !fc.pure {
			t.blockCheck(in.Pos(), "call:"+short)
		}
		if callee != nil {
			t.lockCallCheck(in, callee, sum)
		}
	}
	// lock keys are evaluated in the pre-state
	var acq, rel []string
	for _, path := range fc.acquires {
		if k, _, _, ok := t.lockKeyExpr(pre, path); ok {
			acq = append(acq, k)
		}
	}
	for _, path := range fc.releases {
		if k, _, _, ok := t.lockKeyExpr(pre, path); ok {
			rel = append(rel, k)
		}
	}
	preState := t.cur
	t.cur = t.h.child(t.cur)
	if fc.pure {
		// result is a function of the arguments only
		if res != nil {
			var as, sorts []string
			for _, a := range cc.Args {
				as = append(as, t.val(a))
				sorts = append(sorts, t.sortOf(a.Type()))
			}
			if cc.IsInvoke() {
				as = append([]string{t.val(cc.Value)}, as...)
				sorts = append([]string{"Iface"}, sorts...)
				fn := t.c.declareFun("pure:"+short+":Iface", sorts, t.sortOf(res.Type()))
				v := t.setVal(res, "("+fn+" "+strings.Join(as, " ")+")")
				t.assumeType(v, res.Type())
			} else if len(as) > 0 {
				fn := t.c.declareFun("pure:"+short+":"+bare(sorts[0]), sorts, t.sortOf(res.Type()))
				v := t.setVal(res, "("+fn+" "+strings.Join(as, " ")+")")
				t.assumeType(v, res.Type())
			} else {
				t.freshResults(res, nameOf(res, "r"))
			}
		}
	} else {
		if fc.hasMods {
			vars := map[string]bool{}
			for _, v := range t.modVars(fc, callee) {
				vars[v] = true
			}
			t.havocVars(false, vars)
		} else if sum == nil {
			t.havocVars(true, nil)
		} else {
			t.havocVars(sum.all, sum.vars)
		}
		t.ownFrame(preState, cc.Args)
		t.freshResults(res, nameOf(res, "r"))
		if fc.freshOnly {
			// the callee writes only objects nobody else references (fresh or recycled):
			// every field of every object other than the result keeps its value
			t.freshOnlyFrame(preState, res)
		}
	}
	for _, k := range acq {
		t.h.set(t.cur, "held", store(t.h.get(t.cur, "held"), k, "true"))
	}
	for _, k := range rel {
		t.h.set(t.cur, "held", store(t.h.get(t.cur, "held"), k, "false"))
	}
	var results []sval
	if res != nil {
		if tu, ok := res.Type().(*types.Tuple); ok {
			for i, term := range t.vals[res] {
				results = append(results, sval{term: term, typ: tu.At(i).Type(), sort: t.sortOf(tu.At(i).Type())})
			}
		} else {
			results = []sval{{term: t.vals[res][0], typ: res.Type(), sort: t.sortOf(res.Type())}}
		}
	}
	post := &evalCtx{t: t, fn: efn, st: t.cur, old: preState, binds: binds, results: results, where: full}
	for _, en := range append(append([]specLine{}, fc.trusts...), fc.ensures...)[:len(fc.trusts)] {
		t.quietSpec++
		if term, ok := t.evalBool(post, en); ok {
			t.assume(term)
		}
		t.quietSpec--
	}
	for _, en := range fc.ensures {
		// ensures clauses that mention the callee's ghosts / locals cannot be used by callers
		t.quietSpec++
		if term, ok := t.evalBool(post, en); ok {
			t.assume(term)
		}
		t.quietSpec--
	}
	for i := range heldOwners {
		t.assumeInvariants(heldOwners[i])
		t.foreignInvariants(heldFields[i], true, nil, "", &heldOwners[i])
	}
	t.usedContracts[full] = true
}


func (t *fnTrans) freshOnlyFrame(pre *State, res ssa.Value) {
	if res == nil {
		return
	}
	r := t.vals[res][0]
	for _, hv := range t.h.allVars() {
		if !strings.HasPrefix(hv, "F:") {
			continue
		}
		a, b := t.h.get(pre, hv), t.h.get(t.cur, hv)
		if a == b {
			continue
		}
		x := q(t.c.fresh("x"))
		t.assume(fmt.Sprintf("(forall ((%s Int)) (! (=> (not (= %s %s)) (= (select %s %s) (select %s %s))) :pattern ((select %s %s))))", x, x, r, b, x, a, x, b, x))
	}
}


// chanElemInvs: element invariants declared for the struct field a channel value was loaded from.
func (t *fnTrans) chanElemInvs(ch ssa.Value) []specLine {
	return t.chanElemInvs2(ch, map[ssa.Value]bool{})
}

func (t *fnTrans) chanElemInvs2(ch ssa.Value, seen map[ssa.Value]bool) []specLine {
	u, ok := ch.(*ssa.UnOp)
	if !ok || u.Op != token.MUL {
		if phi, isPhi := ch.(*ssa.Phi); isPhi {
			if seen[phi] {
				return nil
			}
			seen[phi] = true
			// all edges (other than cycles) from the same field
			var first []specLine
			got := false
			for _, e := range phi.Edges {
				if ep, isP := e.(*ssa.Phi); isP && seen[ep] {
					continue
				}
				x := t.chanElemInvs2(e, seen)
				if !got {
					first, got = x, true
				} else if len(x) != len(first) {
					return nil
				}
			}
			return first
		}
		return nil
	}
	fa, ok := u.X.(*ssa.FieldAddr)
	if !ok {
		return nil
	}
	pt := fa.X.Type().Underlying().(*types.Pointer)
	st := pt.Elem().Underlying().(*types.Struct)
	sa := t.g.ann.structs[t.g.typeKey(pt.Elem())]
	if sa == nil {
		return nil
	}
	return sa.elemInv[st.Field(fa.Field).Name()]
}

func (t *fnTrans) elemInvAssume(ch ssa.Value, v string, elem types.Type, cond string) {
	for _, inv := range t.chanElemInvs(ch) {
		e := &evalCtx{t: t, fn: t.fn, st: t.cur, old: t.entry, binds: map[string]sval{"elem": {term: v, typ: elem, sort: t.sortOf(elem)}}}
		if term, ok := t.evalBool(e, inv); ok {
			t.assume(implies(cond, term))
		}
	}
}

func (t *fnTrans) elemInvAssert(in ssa.Instruction, ch ssa.Value, v string, elem types.Type, cond string) {
	for k, inv := range t.chanElemInvs(ch) {
		e := &evalCtx{t: t, fn: t.fn, st: t.cur, old: t.entry, binds: map[string]sval{"elem": {term: v, typ: elem, sort: t.sortOf(elem)}}}
		if term, ok := t.evalBool(e, inv); ok {
			t.oblige("monitor", fmt.Sprintf("send:%s:elem%d", t.staticChanName(ch), k+1), in.Pos(), implies(cond, term), "channel element invariant: "+inv.text)
		}
	}
}


// chanField resolves the struct field a channel value was loaded from (through phis whose
// edges all load the same field).
func (t *fnTrans) chanField(ch ssa.Value, seen map[ssa.Value]bool) (*StructAnn, string) {
	switch x := ch.(type) {
	case *ssa.UnOp:
		if x.Op != token.MUL {
			return nil, ""
		}
		fa, ok := x.X.(*ssa.FieldAddr)
		if !ok {
			return nil, ""
		}
		pt := fa.X.Type().Underlying().(*types.Pointer)
		st := pt.Elem().Underlying().(*types.Struct)
		return t.g.ann.structs[t.g.typeKey(pt.Elem())], st.Field(fa.Field).Name()
	case *ssa.Phi:
		if seen[x] {
			return nil, ""
		}
		seen[x] = true
		var sa *StructAnn
		name := ""
		for _, e := range x.Edges {
			if ep, isP := e.(*ssa.Phi); isP && seen[ep] {
				continue
			}
			a, n := t.chanField(e, seen)
			if a == nil {
				return nil, ""
			}
			if sa == nil {
				sa, name = a, n
			} else if a != sa || n != name {
				return nil, ""
			}
		}
		return sa, name
	}
	return nil, ""
}

// chanNeverClosed: the channel value was loaded from a field declared never_closed.
func (t *fnTrans) chanNeverClosed(ch ssa.Value) bool {
	sa, name := t.chanField(ch, map[ssa.Value]bool{})
	return sa != nil && sa.openChan[name]
}
