package main

// Replay of solver counterexamples against the real code (DESIGN §6):
// templates are Go test files injected in-package with `go test -overlay`.

type replayTemplate struct {
	name  string
	match func(o *Obligation) bool
	run   func(g *Gen, o *Obligation, model map[string]string) (bool, string)
}

var replayTemplates []*replayTemplate

func findReplay(o *Obligation) *replayTemplate {
	for _, r := range replayTemplates {
		if r.match(o) {
			return r
		}
	}
	return nil
}
