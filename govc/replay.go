package main

// Replay of solver counterexamples against the real code (DESIGN §6):
// templates (/verif/replay/*.go.tmpl) are Go test files injected in-package with
// `go test -overlay` — /repo is not written. A replay "confirms" a violation when
// the generated test FAILS on the real code with the counterexample's values.

import (
	"encoding/json"
	"fmt"
	"os"
	"os/exec"
	"path/filepath"
	"regexp"
	"strconv"
	"strings"
	"time"
)

type replayTemplate struct {
	fixed bool // a fixed history that needs no value from the solver: may run whatever the solver's answer was
	name  string
	match func(o *Obligation) bool
	run   func(g *Gen, o *Obligation, model map[string]string) (bool, string)
}

var replayDir = "/verif/replay"

// repoDir: the tree under verification (set from -dir)
var repoDir = "/repo"

var replayTemplates = []*replayTemplate{
	{
		fixed: true,
		name: "ws_handler_after_close.go.tmpl",
		match: func(o *Obligation) bool {
			return o.Kind == "site" && o.Func == "(*transport/ws.listener).handler" && strings.Contains(o.Note, "!l.closed")
		},
		run: func(g *Gen, o *Obligation, model map[string]string) (bool, string) {
			// fixed history: Listen, Close, then an upgraded connection is handed to handler
			return runReplay("transport/ws", "ws_handler_after_close.go.tmpl", map[string]string{}, "TestZZReplayWsHandlerAfterClose")
		},
	},
	{
		name: "ws_listener_listen_race.go.tmpl",
		match: func(o *Obligation) bool {
			if !(o.Kind == "guard.read" || o.Kind == "guard.write") || !strings.HasPrefix(o.Func, "(*transport/ws.listener).") {
				return false
			}
			for _, f := range []string{":listener.listener", ":listener.bound", ":listener.anon", ":listener.noserve", ":listener.htsvr"} {
				if strings.Contains(o.Name, f) {
					return true
				}
			}
			return false
		},
		run: func(g *Gen, o *Obligation, model map[string]string) (bool, string) {
			return runReplayArgs("transport/ws", "ws_listener_listen_race.go.tmpl", map[string]string{}, "TestZZReplayWsListenerListenRace", "-race")
		},
	},
	{
		name: "tcp_listener_listen_race.go.tmpl",
		match: func(o *Obligation) bool {
			return (o.Kind == "guard.read" || o.Kind == "guard.write") && strings.HasPrefix(o.Func, "(*transport/tcp.listener).") && (strings.Contains(o.Name, ":listener.l") && !strings.Contains(o.Name, ":listener.lc") || strings.Contains(o.Name, ":listener.bound"))
		},
		run: func(g *Gen, o *Obligation, model map[string]string) (bool, string) {
			return runReplayArgs("transport/tcp", "tcp_listener_listen_race.go.tmpl", map[string]string{}, "TestZZReplayListenerListenRace", "-race")
		},
	},
	{
		name: "req_recv_after_superseding_send.go.tmpl",
		match: func(o *Obligation) bool {
			return o.Kind == "post" && o.Func == "(*protocol/req.context).cancel" && strings.Contains(o.Note, "receiveWait")
		},
		run: func(g *Gen, o *Obligation, model map[string]string) (bool, string) {
			// fixed history: Recv pending for request 1, Send of request 2, Recv at once
			return runReplay("protocol/req", "req_recv_after_superseding_send.go.tmpl", map[string]string{}, "TestZZReplayReqRecvAfterSupersedingSend")
		},
	},
	{
		name: "ws_address_race.go.tmpl",
		match: func(o *Obligation) bool {
			return o.Kind == "guard.immutable" && o.Func == "(*transport/ws.listener).Address"
		},
		run: func(g *Gen, o *Obligation, model map[string]string) (bool, string) {
			return runReplayArgs("transport/ws", "ws_address_race.go.tmpl", map[string]string{}, "TestZZReplayWsAddressRace", "-race")
		},
	},
	{
		name: "tlstcp_dialer_keepalive_race.go.tmpl",
		match: func(o *Obligation) bool {
			return (o.Kind == "guard.read" || o.Kind == "guard.write") && strings.HasPrefix(o.Func, "(*transport/tlstcp.dialer).") && strings.Contains(o.Name, ":dialer.*d")
		},
		run: func(g *Gen, o *Obligation, model map[string]string) (bool, string) {
			return runReplayArgs("transport/tlstcp", "tlstcp_dialer_keepalive_race.go.tmpl", map[string]string{}, "TestZZReplayTLSDialerKeepAliveRace", "-race")
		},
	},
	{
		name: "tcp_listener_keepalive_race.go.tmpl",
		match: func(o *Obligation) bool {
			return (o.Kind == "guard.read" || o.Kind == "guard.write") && strings.HasPrefix(o.Func, "(*transport/tcp.listener).") && strings.HasSuffix(o.Name, ":listener.lc")
		},
		run: func(g *Gen, o *Obligation, model map[string]string) (bool, string) {
			return runReplayArgs("transport/tcp", "tcp_listener_keepalive_race.go.tmpl", map[string]string{}, "TestZZReplayListenerKeepAliveRace", "-race")
		},
	},
	{
		name: "ws_options_race.go.tmpl",
		match: func(o *Obligation) bool {
			return (o.Kind == "guard.read" || o.Kind == "guard.write") && (strings.HasPrefix(o.Func, "(*transport/ws.listener).") || strings.HasPrefix(o.Func, "(*transport/ws.dialer).")) && (strings.Contains(o.Name, ".opts") || strings.Contains(o.Name, ".ug"))
		},
		run: func(g *Gen, o *Obligation, model map[string]string) (bool, string) {
			// fixed schedule, under the race detector: SetOption in one goroutine, GetOption / Dial in others
			return runReplayArgs("transport/ws", "ws_options_race.go.tmpl", map[string]string{}, "TestZZReplayWsOptionsRace", "-race")
		},
	},
	{
		name: "ipc_listener_option_readback.go.tmpl",
		match: func(o *Obligation) bool {
			return o.Kind == "post" && o.Func == "(*transport/ipc.listener).GetOption" && strings.Contains(o.Note, "OptionIpcSocket")
		},
		run: func(g *Gen, o *Obligation, model map[string]string) (bool, string) {
			// fixed inputs: each of the three ipc listener options is set to an accepted value and read back
			return runReplay("transport/ipc", "ipc_listener_option_readback.go.tmpl", map[string]string{}, "TestZZReplayIpcListenerOptionReadback")
		},
	},
	{
		name: "xrep_send_peer_gone.go.tmpl",
		match: func(o *Obligation) bool {
			return o.Kind == "post" && o.Func == "(*protocol/xrep.socket).SendMsg" && strings.Contains(o.Note, "result == protocol.ErrClosed ==> s.closed")
		},
		run: func(g *Gen, o *Obligation, model map[string]string) (bool, string) {
			// fixed history: WriteQLen 0, one reply in flight, a second one blocked, the peer's pipe closes
			return runReplay("protocol/xrep", "xrep_send_peer_gone.go.tmpl", map[string]string{}, "TestZZReplayXRepSendPeerGone")
		},
	},
	{
		name: "tcp_dialer_keepalive_race.go.tmpl",
		match: func(o *Obligation) bool {
			return (o.Kind == "guard.read" || o.Kind == "guard.write") && strings.HasPrefix(o.Func, "(*transport/tcp.dialer).") && strings.HasSuffix(o.Name, ":dialer.d")
		},
		run: func(g *Gen, o *Obligation, model map[string]string) (bool, string) {
			// fixed schedule, under the race detector: Dial to a dead port in a loop while SetOption(KeepAliveTime) runs
			return runReplayArgs("transport/tcp", "tcp_dialer_keepalive_race.go.tmpl", map[string]string{}, "TestZZReplayDialerKeepAliveRace", "-race")
		},
	},
	{
		name: "tls_state_before_handshake.go.tmpl",
		match: func(o *Obligation) bool {
			return o.Kind == "post" && o.Func == "(*transport.conn).handshake" && strings.Contains(o.Note, "ConnectionState")
		},
		run: func(g *Gen, o *Obligation, model map[string]string) (bool, string) {
			// fixed history: tls+tcp listener and dialer connect, the listener-side pipe's TLS state is read
			return runReplay("transport/tlstcp", "tls_state_before_handshake.go.tmpl", map[string]string{}, "TestZZReplayTLSStateAfterHandshake")
		},
	},
	{
		name: "xstar_resize_pending_recv.go.tmpl",
		match: func(o *Obligation) bool {
			return (o.Kind == "site" || o.Kind == "contract") && o.Func == "(*protocol/xstar.socket).RecvMsg" && strings.Contains(o.Note, "sizeq")
		},
		run: func(g *Gen, o *Obligation, model map[string]string) (bool, string) {
			// fixed history: Recv pending (2 s deadline), SetOption(ReadQLen, 10), one message from a peer
			return runReplay("protocol/xstar", "xstar_resize_pending_recv.go.tmpl", map[string]string{}, "TestZZReplayXStarResizePendingRecv")
		},
	},
	{
		name: "core_negative_reconnect.go.tmpl",
		match: func(o *Obligation) bool {
			return o.Kind == "post" && o.Func == "(*internal/core.socket).SetOption" && strings.Contains(o.Note, "ReconnectTime ==>") && strings.Contains(o.Note, "int_of(value) >= 0")
		},
		run: func(g *Gen, o *Obligation, model map[string]string) (bool, string) {
			opt := "mangos.OptionReconnectTime"
			if strings.Contains(o.Note, "OptionMaxReconnectTime") {
				opt = "mangos.OptionMaxReconnectTime"
			}
			v := modelInt(model, "value.int", -1)
			return runReplay("transport/tcp", "core_negative_reconnect.go.tmpl", map[string]string{"OPTION": opt, "VALUE": fmt.Sprint(v)}, "TestZZReplayNegativeReconnect")
		},
	},
	{
		name: "xreq_send_after_close.go.tmpl",
		match: func(o *Obligation) bool {
			return o.Kind == "post" && o.Func == "(*protocol/xreq.socket).SendMsg" && strings.Contains(o.Note, "cl ==> result == protocol.ErrClosed")
		},
		run: func(g *Gen, o *Obligation, model map[string]string) (bool, string) {
			// fixed history: Close, SetOption(WriteQLen, 64), 40 Sends
			return runReplay("protocol/xreq", "xreq_send_after_close.go.tmpl", map[string]string{}, "TestZZReplayXReqSendAfterClose")
		},
	},
	{
		name: "sub_readqlen_zero.go.tmpl",
		match: func(o *Obligation) bool {
			return o.Kind == "lock.block" && o.Func == "(*protocol/sub.pipe).receiver" && strings.Contains(o.Name, ":block:send:")
		},
		run: func(g *Gen, o *Obligation, model map[string]string) (bool, string) {
			// fixed history: ReadQLen 0, one matching message while nobody is in Recv, then Close
			return runReplay("protocol/sub", "sub_readqlen_zero.go.tmpl", map[string]string{}, "TestZZReplaySubReadQLenZero")
		},
	},
	{
		name: "wss_listen_nil_tlsconfig.go.tmpl",
		match: func(o *Obligation) bool {
			return o.Kind == "safe.nil" && o.Func == "(*transport/ws.listener).Listen"
		},
		run: func(g *Gen, o *Obligation, model map[string]string) (bool, string) {
			// fixed input: OptionTLSConfig = (*tls.Config)(nil) on a wss listener, then Listen
			return runReplay("transport/ws", "wss_listen_nil_tlsconfig.go.tmpl", map[string]string{}, "TestZZReplayWssListenNilTLSConfig")
		},
	},
	{
		name: "ws_address_after_failed_listen.go.tmpl",
		match: func(o *Obligation) bool {
			return o.Kind == "monitor" && o.Func == "(*transport/ws.listener).Listen" && strings.Contains(o.Name, "listener.minv1")
		},
		run: func(g *Gen, o *Obligation, model map[string]string) (bool, string) {
			// fixed history: Listen on an unbindable address with port 0, then Address()
			return runReplay("transport/ws", "ws_address_after_failed_listen.go.tmpl", map[string]string{}, "TestZZReplayAddressAfterFailedListen")
		},
	},
	{
		name: "dial_retry.go.tmpl",
		match: func(o *Obligation) bool {
			return o.Kind == "post" && (o.Func == "(*internal/core.dialer).dial" || o.Func == "(*internal/core.dialer).Dial") && strings.Contains(o.Note, "!d.active")
		},
		run: func(g *Gen, o *Obligation, model map[string]string) (bool, string) {
			// fixed history: synchronous Dial to a dead port twice on one dialer
			return runReplay("transport/tcp", "dial_retry.go.tmpl", map[string]string{}, "TestZZReplayDialRetry")
		},
	},
	{
		name: "req_stale_retry_timer.go.tmpl",
		match: func(o *Obligation) bool {
			return strings.HasPrefix(o.Name, "site:(*protocol/req.socket).send:before:call:AfterFunc#1")
		},
		run: func(g *Gen, o *Obligation, model map[string]string) (bool, string) {
			// fixed history: send, pipe lost at 3/4 of the retry interval, watch the next two transmissions
			return runReplay("protocol/req", "req_stale_retry_timer.go.tmpl", map[string]string{}, "TestZZReplayReqStaleRetryTimer")
		},
	},
	{
		name: "conn_close_during_handshake.go.tmpl",
		match: func(o *Obligation) bool {
			return strings.Contains(o.Name, "(*transport.conn).Close:")
		},
		run: func(g *Gen, o *Obligation, model map[string]string) (bool, string) {
			// fixed history: listener accepts a silent TCP peer, socket is closed mid-handshake
			return runReplay("transport/tcp", "conn_close_during_handshake.go.tmpl", map[string]string{}, "TestZZReplayCloseDuringHandshake")
		},
	},
	{
		name: "req_send_cancels_recv.go.tmpl",
		match: func(o *Obligation) bool {
			return strings.HasPrefix(o.Name, "site:(*protocol/req.context).RecvMsg:before:call:Broadcast#1")
		},
		run: func(g *Gen, o *Obligation, model map[string]string) (bool, string) {
			// the history is fixed by the obligation: Send, pending Recv, Send, reply, Recv
			return runReplay("protocol/req", "req_send_cancels_recv.go.tmpl", map[string]string{}, "TestZZReplayReqCancel")
		},
	},
	{
		name: "ttl_words.go.tmpl",
		match: func(o *Obligation) bool {
			return regexp.MustCompile(`^site:\(\*protocol/(rep|xrep|respondent|xrespondent)\.pipe\)\.receiver:`).MatchString(o.Name)
		},
		run: func(g *Gen, o *Obligation, model map[string]string) (bool, string) {
			pkg := regexp.MustCompile(`protocol/(\w+)\.pipe`).FindStringSubmatch(o.Name)[1]
			ttl := modelInt(model, "ttl", -1)
			if ttl < 1 || ttl > 255 {
				// cooked receivers read s.ttl; fall back to the hop counter the model chose
				ttl = modelInt(model, "hops", 1)
				if ttl < 1 || ttl > 255 {
					ttl = 1
				}
			}
			return runReplay("protocol/"+pkg, "ttl_words.go.tmpl", map[string]string{"PKG": pkg, "TTL": fmt.Sprint(ttl)}, "TestZZReplayTTL")
		},
	},
	{
		name: "macat_print.go.tmpl",
		match: func(o *Obligation) bool {
			return strings.HasPrefix(o.Name, "site:(*macat.App).printMsg:")
		},
		run: func(g *Gen, o *Obligation, model map[string]string) (bool, string) {
			n := modelInt(model, "len(Body)", -1)
			if n < 0 {
				n = modelInt(model, "len(msg.Body)", 3)
			}
			return runReplay("macat", "macat_print.go.tmpl", map[string]string{"LEN": fmt.Sprint(n), "BYTE": fmt.Sprint(modelInt(model, "byte", 0xa1))}, "TestZZReplayPrint")
		},
	},
}

func modelInt(m map[string]string, k string, def int) int {
	if v, ok := m[k]; ok {
		if n, err := strconv.Atoi(strings.TrimSpace(v)); err == nil {
			return n
		}
	}
	return def
}

func findReplay(o *Obligation) *replayTemplate {
	for _, r := range replayTemplates {
		if r.match(o) {
			return r
		}
	}
	return nil
}

// runReplay instantiates a template and runs it in-package through an overlay.
// Returns (test failed = violation reproduced, output).
func runReplay(pkgDir, tmpl string, subst map[string]string, test string) (bool, string) {
	return runReplayArgs(pkgDir, tmpl, subst, test)
}

// runReplayArgs: extra `go test` flags (e.g. -race for guard violations: the run fails when the race
// detector reports a race with both stacks inside the library)
func runReplayArgs(pkgDir, tmpl string, subst map[string]string, test string, extra ...string) (bool, string) {
	src, err := os.ReadFile(filepath.Join(replayDir, tmpl))
	if err != nil {
		return false, "template missing: " + err.Error()
	}
	text := string(src)
	for k, v := range subst {
		text = strings.ReplaceAll(text, "{{"+k+"}}", v)
	}
	work, err := os.MkdirTemp("/verif/out", "replay-")
	if err != nil {
		os.MkdirAll("/verif/out", 0o755)
		work, err = os.MkdirTemp("/verif/out", "replay-")
		if err != nil {
			return false, err.Error()
		}
	}
	defer os.RemoveAll(work)
	tf := filepath.Join(work, "zz_replay_test.go")
	os.WriteFile(tf, []byte(text), 0o644)
	ov := map[string]map[string]string{"Replace": {filepath.Join(repoDir, pkgDir, "zz_replay_test.go"): tf}}
	ob, _ := json.Marshal(ov)
	of := filepath.Join(work, "overlay.json")
	os.WriteFile(of, ob, 0o644)
	args := []string{"test", "-overlay", of, "-vet=off", "-count=1", "-v", "-timeout", "60s"}
	args = append(args, extra...)
	args = append(args, "-run", "^"+test+"$", "./"+pkgDir)
	cmd := exec.Command("go", args...)
	cmd.Dir = repoDir
	cmd.Env = append(os.Environ(), "GOFLAGS=-mod=mod", "GOPROXY=off", "GOSUMDB=off", "GOTOOLCHAIN=local")
	done := make(chan struct{})
	var out []byte
	go func() { out, err = cmd.CombinedOutput(); close(done) }()
	select {
	case <-done:
	case <-time.After(120 * time.Second):
		cmd.Process.Kill()
		return false, "replay timed out"
	}
	s := string(out)
	if len(s) > 4000 {
		s = s[:4000]
	}
	failed := err != nil && (strings.Contains(s, "--- FAIL") || strings.Contains(s, "WARNING: DATA RACE"))
	return failed, s
}
