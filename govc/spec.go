package main

// Typed evaluation of contract expressions to SMT terms in a given state.

import (
	"fmt"
	"go/constant"
	"go/token"
	"go/types"
	"strings"

	"golang.org/x/tools/go/ssa"
)

type sval struct {
	term string
	typ  types.Type // nil for pure Int/Bool ghost values
	sort string
	st   *State // pinned state for element reads (snapshots); nil = evaluation state
	addr bool   // term is the address of a struct-typed place
}

type evalCtx struct {
	t       *fnTrans
	fn      *ssa.Function // whose parameter names / package scope resolve identifiers
	st      *State        // current state
	old     *State        // state for old()
	binds   map[string]sval
	results []sval
	this    *sval // struct invariant context
	locals  bool  // may resolve source-level local names of t.fn
	phi     map[*ssa.Phi]string
	where   string
	inOld   bool
}

type specErr struct{ msg string }

func (e *evalCtx) fail(f string, a ...interface{}) {
	panic(specErr{fmt.Sprintf(f, a...)})
}

func (e *evalCtx) with(st *State) *evalCtx {
	c := *e
	c.st = st
	return &c
}

func (e *evalCtx) bind(name string, v sval) *evalCtx {
	c := *e
	c.binds = map[string]sval{}
	for k, x := range e.binds {
		c.binds[k] = x
	}
	c.binds[name] = v
	return &c
}

// evalBool parses and evaluates a boolean spec line; errors are reported once.
// evalTerm: like evalBool for an expression of any sort.
func (t *fnTrans) evalTerm(e *evalCtx, sl specLine) (term string, ok bool) {
	defer func() {
		if r := recover(); r != nil {
			se, isSpec := r.(specErr)
			msg := fmt.Sprint(r)
			if isSpec {
				msg = se.msg
			}
			save := t.cur.reach
			o := t.oblige("contract", fmt.Sprintf("%s:%d", sl.file, sl.line), token.NoPos, "false", "contract clause cannot be evaluated on this code: "+msg+" ["+sl.text+"]")
			o.Trivial = false
			o.Reach = "true"
			t.cur.reach = save
			term, ok = "0", false
		}
	}()
	x, err := parseSpec(sl.text)
	if err != nil {
		panic(specErr{err.Error()})
	}
	v := e.eval(x)
	return v.term, true
}

func (t *fnTrans) evalBool(e *evalCtx, sl specLine) (term string, ok bool) {
	defer func() {
		if r := recover(); r != nil {
			se, isSpec := r.(specErr)
			msg := fmt.Sprint(r)
			if isSpec {
				msg = se.msg
			}
			// a contract clause that can no longer be evaluated against the code (renamed local,
			// removed site, changed type) is reported as a failed obligation, not silently dropped
			if t.quietSpec > 0 {
				term, ok = "true", false
				return
			}
			save := t.cur.reach
			o := t.oblige("contract", fmt.Sprintf("%s:%d", sl.file, sl.line), token.NoPos, "false", "contract clause cannot be evaluated on this code: "+msg+" ["+sl.text+"]")
			o.Trivial = false
			o.Reach = "true"
			t.cur.reach = save
			term, ok = "true", false
		}
	}()
	x, err := parseSpec(sl.text)
	if err != nil {
		panic(specErr{err.Error()})
	}
	v := e.eval(x)
	if v.sort != "Bool" {
		e.fail("expression is not boolean: %s", sl.text)
	}
	return v.term, true
}

func (e *evalCtx) inState(st *State, f func() sval) sval {
	save := e.t.cur
	e.t.cur = st
	defer func() { e.t.cur = save }()
	return f()
}

func boolv(t string) sval { return sval{term: t, sort: "Bool"} }
func intv(t string) sval  { return sval{term: t, sort: "Int"} }

func (e *evalCtx) mk(term string, ty types.Type) sval {
	return sval{term: term, typ: ty, sort: e.t.sortOf(ty)}
}

func (e *evalCtx) eval(x *sx) sval {
	switch x.op {
	case "num":
		return intv(numLit(x.val))
	case "str":
		if x.val == "" {
			return sval{term: "str_empty", sort: "Str", typ: types.Typ[types.String]}
		}
		return sval{term: e.t.c.strLit(x.val), sort: "Str", typ: types.Typ[types.String]}
	case "id":
		return e.ident(x.val)
	case "un":
		a := e.eval(x.args[0])
		if x.val == "!" {
			return boolv(not(a.term))
		}
		return intv("(- " + a.term + ")")
	case "bin":
		return e.binary(x)
	case "sel":
		return e.selector(x)
	case "idx":
		return e.indexExpr(x)
	case "slice":
		return e.sliceExpr(x)
	case "call":
		return e.callExpr(x)
	}
	e.fail("cannot evaluate %v", x.op)
	return sval{}
}

func numLit(s string) string {
	if strings.HasPrefix(s, "-") {
		return "(- " + s[1:] + ")"
	}
	return s
}

func (e *evalCtx) binary(x *sx) sval {
	switch x.val {
	case "==>":
		a, b := e.eval(x.args[0]), e.eval(x.args[1])
		return boolv(implies(a.term, b.term))
	case "<==>":
		a, b := e.eval(x.args[0]), e.eval(x.args[1])
		return boolv("(= " + a.term + " " + b.term + ")")
	case "&&":
		a, b := e.eval(x.args[0]), e.eval(x.args[1])
		return boolv(and(a.term, b.term))
	case "||":
		a, b := e.eval(x.args[0]), e.eval(x.args[1])
		return boolv(or(a.term, b.term))
	}
	a, b := e.eval(x.args[0]), e.eval(x.args[1])
	switch x.val {
	case "==", "!=":
		a, b = e.coerce(a, b)
		r := eq(a.term, b.term)
		if x.val == "!=" {
			r = not(r)
		}
		return boolv(r)
	case "<", "<=", ">", ">=":
		return boolv("(" + x.val + " " + a.term + " " + b.term + ")")
	case "+", "-", "*":
		if a.sort == "Str" && x.val == "+" {
			return sval{term: "(str_concat " + a.term + " " + b.term + ")", sort: "Str", typ: a.typ}
		}
		return intv("(" + x.val + " " + a.term + " " + b.term + ")")
	case "/":
		return intv("(div " + a.term + " " + b.term + ")")
	case "%":
		return intv("(mod " + a.term + " " + b.term + ")")
	}
	e.fail("operator %s", x.val)
	return sval{}
}

// coerce makes the two sides of an equality comparable (nil, concrete value vs interface).
func (e *evalCtx) coerce(a, b sval) (sval, sval) {
	if a.sort == b.sort {
		return a, b
	}
	fix := func(v sval, want sval) sval {
		if v.term == "NIL" {
			switch want.sort {
			case "Int":
				return sval{term: "0", sort: "Int"}
			case "Slice":
				return sval{term: "nil_slice", sort: "Slice"}
			case "Iface":
				return sval{term: "nil_iface", sort: "Iface"}
			}
		}
		if want.sort == "Iface" && v.typ != nil {
			return sval{term: e.t.mkIface(v.typ, v.term), sort: "Iface", typ: want.typ}
		}
		return v
	}
	a2 := fix(a, b)
	b2 := fix(b, a)
	if a2.sort != b2.sort {
		e.fail("cannot compare %s with %s (%s vs %s)", a.term, b.term, a.sort, b.sort)
	}
	return a2, b2
}

func (e *evalCtx) ident(name string) sval {
	if v, ok := e.binds[name]; ok {
		return v
	}
	// a variable that was renamed since the contracts were written (names.go)
	if a, ok := e.t.g.alias[e.t.g.fnKey(e.fn)][name]; ok {
		name = a
	}
	switch name {
	case "true":
		return boolv("true")
	case "false":
		return boolv("false")
	case "nil":
		return sval{term: "NIL", sort: "NIL"}
	case "result", "result0":
		if len(e.results) == 0 {
			e.fail("no result here")
		}
		return e.results[0]
	case "this":
		if e.this != nil {
			return *e.this
		}
	case "selidx":
		if e.t.lastSel != "" {
			return intv(e.t.lastSel)
		}
	}
	if strings.HasPrefix(name, "result") {
		var n int
		if _, err := fmt.Sscanf(name, "result%d", &n); err == nil && n < len(e.results) {
			return e.results[n]
		}
	}
	if e.fn == e.t.fn {
		// ghosts belong to one activation: a callee's clause naming a ghost says nothing about
		// the caller's ghost of the same name (the clause is skipped at call sites)
		if v, ok := e.t.ghostVals[name]; ok {
			return v
		}
		if v, ok := e.t.unreachedGhost(name); ok {
			return v
		}
		if srt, ok := e.t.h.sorts["ghost:u:"+name]; ok {
			return sval{term: e.t.h.get(e.st, "ghost:u:"+name), sort: srt}
		}
	} else if fc := e.t.g.ann.funcs[e.t.g.contractKey(e.fn)]; fc != nil && fc.declaresGhost(name) {
		e.fail("ghost %q of the callee is not visible at a call site", name)
	}
	// inside a helper translated in place its own parameters (and their reassignments) come first
	if e.locals && e.fn == e.t.fn {
		for i := len(e.t.frames) - 1; i >= 0; i-- {
			fr := e.t.frames[i]
			for _, p := range fr.fn.Params {
				if p.Name() == name {
					if v, ok := e.localIn(name, fr.fn); ok && !e.inOld {
						return v
					}
					return e.mk(e.t.val(p), p.Type())
				}
			}
		}
	}
	// a reassigned parameter: outside old() the name means its current value
	if e.locals && !e.inOld && e.fn == e.t.fn {
		if v, ok := e.local(name); ok {
			return v
		}
	}
	// parameters (by name) of the function whose contract this is
	for i, p := range e.fn.Params {
		if p.Name() == name {
			if e.fn == e.t.fn {
				return e.mk(e.t.val(p), p.Type())
			}
			_ = i
		}
	}
	for _, fv := range e.fn.FreeVars {
		if fv.Name() == name && e.fn == e.t.fn {
			l := e.t.locOf(fv)
			return e.inState(e.st, func() sval { return e.mk(e.t.load(l), l.typ) })
		}
	}
	// named results
	if e.fn.Signature.Results() != nil {
		for i := 0; i < e.fn.Signature.Results().Len(); i++ {
			if e.fn.Signature.Results().At(i).Name() == name && i < len(e.results) {
				return e.results[i]
			}
		}
	}
	if e.locals {
		if v, ok := e.local(name); ok {
			return v
		}
	}
	// bare field of `this` in struct invariants
	if e.this != nil {
		if v, ok := e.tryField(*e.this, name); ok {
			return v
		}
	}
	// package-level object
	if pkg := e.pkg(); pkg != nil {
		if obj := pkg.Scope().Lookup(name); obj != nil {
			return e.object(obj)
		}
		if obj := types.Universe.Lookup(name); obj != nil {
			if c, ok := obj.(*types.Const); ok {
				return e.constVal(c)
			}
		}
	}
	e.fail("unknown identifier %q", name)
	return sval{}
}

func (e *evalCtx) pkg() *types.Package {
	root := e.fn
	for root.Parent() != nil {
		root = root.Parent()
	}
	if root.Pkg != nil {
		return root.Pkg.Pkg
	}
	if o := root.Object(); o != nil {
		return o.Pkg()
	}
	return nil
}

func (e *evalCtx) object(obj types.Object) sval {
	switch o := obj.(type) {
	case *types.Const:
		return e.constVal(o)
	case *types.Var:
		// package-level variable
		for _, sp := range e.t.g.spkgs {
			if sp != nil && sp.Pkg == o.Pkg() {
				if g, ok := sp.Members[o.Name()].(*ssa.Global); ok {
					ty := g.Type().(*types.Pointer).Elem()
					if _, isSt := ty.Underlying().(*types.Struct); isSt {
						return sval{term: e.t.val(g), typ: g.Type(), sort: "Int", addr: true}
					}
					hv, _ := e.t.globalHV(g)
					return e.mk(e.t.h.get(e.st, hv), ty)
				}
			}
		}
	}
	e.fail("unsupported object %s", obj.Name())
	return sval{}
}

func (e *evalCtx) constVal(c *types.Const) sval {
	v := c.Val()
	switch v.Kind() {
	case constant.Bool:
		if constant.BoolVal(v) {
			return boolv("true")
		}
		return boolv("false")
	case constant.String:
		s := constant.StringVal(v)
		term := "str_empty"
		if s != "" {
			term = e.t.c.strLit(s)
		}
		return sval{term: term, sort: "Str", typ: c.Type()}
	case constant.Int:
		return sval{term: numLit(v.ExactString()), sort: "Int", typ: c.Type()}
	}
	e.fail("constant %s of unsupported kind", c.Name())
	return sval{}
}

// local resolves a source-level variable name of the function being translated:
// the most recent definition (DebugRef'd value or loop phi carrying that name)
// that dominates the current point.
func (e *evalCtx) local(name string) (sval, bool) { return e.localIn(name, nil) }

// localIn: like local, restricted to definitions inside function `only` when it is not nil.
func (e *evalCtx) localIn(name string, only *ssa.Function) (sval, bool) {
	t := e.t
	depth := func(b *ssa.BasicBlock) int {
		d := 0
		for x := b; x != nil; x = x.Idom() {
			d++
		}
		// definitions inside a helper translated in place shadow the caller's
		for i, fr := range t.frames {
			if b != nil && fr.fn == b.Parent() {
				d += 10000 * (i + 1)
			}
		}
		return d
	}
	var best ssa.Value
	bd, bi := -1, -1
	consider := func(v ssa.Value, blk *ssa.BasicBlock, idx int) {
		if only != nil && blk != nil && blk.Parent() != only {
			return
		}
		if t.curBlock != nil && blk != nil && !t.nameVisible(blk) {
			return
		}
		if _, def := t.vals[v]; !def {
			_, isConst := v.(*ssa.Const)
			overridden := false
			if phi, isPhi := v.(*ssa.Phi); isPhi {
				_, overridden = e.phi[phi]
			}
			if !isConst && !overridden {
				return
			}
		}
		d := depth(blk)
		if d > bd || (d == bd && idx > bi) {
			best, bd, bi = v, d, idx
		}
	}
	for _, r := range t.names[name] {
		consider(r.v, r.blk, r.idx)
	}
	for b := t.curBlock; b != nil; b = b.Idom() {
		for i, in := range b.Instrs {
			phi, ok := in.(*ssa.Phi)
			if !ok {
				break
			}
			if phi.Comment == name {
				consider(phi, b, i)
			}
		}
	}
	if best == nil {
		// address-taken local (Alloc with that comment)
		for _, b := range t.allBlocks() {
			if only != nil && b.Parent() != only {
				continue
			}
			for _, in := range b.Instrs {
				if a, ok := in.(*ssa.Alloc); ok && a.Comment == name {
					if _, def := t.vals[a]; def {
						l := t.locOf(a)
						return e.inState(e.st, func() sval { return e.mk(t.load(l), l.typ) }), true
					}
				}
			}
		}
		return sval{}, false
	}
	if phi, ok := best.(*ssa.Phi); ok {
		if term, ok := e.phi[phi]; ok {
			return e.mk(term, phi.Type()), true
		}
	}
	return e.mk(t.val(best), best.Type()), true
}

func (e *evalCtx) tryField(base sval, name string) (v sval, ok bool) {
	defer func() {
		if r := recover(); r != nil {
			ok = false
		}
	}()
	return e.field(base, name), true
}

// field selects base.name following embedded structs.
func (e *evalCtx) field(base sval, name string) sval {
	if base.typ == nil {
		e.fail("field %s of untyped value", name)
	}
	T := base.typ
	obj, path, _ := types.LookupFieldOrMethod(T, true, e.pkgFor(T), name)
	fv, isVar := obj.(*types.Var)
	if !isVar || len(path) == 0 {
		e.fail("no field %s in %s", name, T)
	}
	_ = fv
	cur := base
	for _, idx := range path {
		cur = e.fieldStep(cur, idx)
	}
	return cur
}

func (e *evalCtx) pkgFor(T types.Type) *types.Package {
	if n, ok := deref(T).(*types.Named); ok && n.Obj().Pkg() != nil {
		return n.Obj().Pkg()
	}
	return e.pkg()
}

func (e *evalCtx) fieldStep(cur sval, idx int) sval {
	T := cur.typ
	isPtr := false
	if p, ok := T.Underlying().(*types.Pointer); ok {
		T = p.Elem()
		isPtr = true
	}
	st, ok := T.Underlying().(*types.Struct)
	if !ok {
		e.fail("not a struct: %s", T)
	}
	f := st.Field(idx)
	_, fIsStruct := f.Type().Underlying().(*types.Struct)
	if isPtr || cur.addr {
		if fIsStruct {
			return sval{term: e.t.faddr(T, idx, cur.term), typ: types.NewPointer(f.Type()), sort: "Int", addr: true}
		}
		hv, ft, _ := e.t.fieldHV(T, idx)
		st := e.st
		if cur.st != nil {
			st = cur.st
		}
		v := e.mk(sel(e.t.h.get(st, hv), cur.term), ft)
		if _, isSl := ft.Underlying().(*types.Slice); isSl {
			// representation invariant of every slice stored in the heap
			x := v.term
			e.t.assume(fmt.Sprintf("(and (<= 0 (sl_off %s)) (<= 0 (sl_len %s)) (<= (sl_len %s) (sl_cap %s)) (<= (sl_cap %s) 140737488355328) (<= (sl_arr %s) %s))", x, x, x, x, x, x, e.t.h.get(st, "alloc")))
		}
		return v
	}
	// struct value
	s := strings.Trim(e.t.sortOf(T), "|")
	return e.mk("("+q(s+"."+f.Name())+" "+cur.term+")", f.Type())
}

func (e *evalCtx) selector(x *sx) sval {
	// package-qualified identifier?
	if x.args[0].op == "id" {
		if _, bound := e.binds[x.args[0].val]; !bound {
			if pkg := e.pkg(); pkg != nil {
				for _, imp := range pkg.Imports() {
					if imp.Name() == x.args[0].val {
						if obj := imp.Scope().Lookup(x.val); obj != nil {
							return e.object(obj)
						}
					}
				}
				if pkg.Name() == x.args[0].val {
					if obj := pkg.Scope().Lookup(x.val); obj != nil {
						return e.object(obj)
					}
				}
			}
		}
	}
	base := e.eval(x.args[0])
	return e.field(base, x.val)
}

func (e *evalCtx) elemState(v sval) *State {
	if v.st != nil {
		return v.st
	}
	return e.st
}

func (e *evalCtx) indexExpr(x *sx) sval {
	base := e.eval(x.args[0])
	i := e.eval(x.args[1])
	if base.typ == nil {
		e.fail("index of untyped value")
	}
	switch u := base.typ.Underlying().(type) {
	case *types.Slice:
		if st, isSt := e.t.isStruct(u.Elem()); isSt && st.NumFields() > 0 {
			// slice of struct values: the element is addressed the way the code addresses it
			// (IndexAddr: a struct reference whose fields live in the field heap)
			ea := e.t.c.eaddrFun()
			return sval{term: "(" + ea + " (sl_arr " + base.term + ") (ix (sl_off " + base.term + ") " + i.term + "))", sort: "Int", typ: types.NewPointer(u.Elem()), st: base.st}
		}
		hv := e.t.elemHV(u.Elem())
		return e.mk(sel(sel(e.t.h.get(e.elemState(base), hv), "(sl_arr "+base.term+")"), "(ix (sl_off "+base.term+") "+i.term+")"), u.Elem())
	case *types.Map:
		_, val, _ := e.t.mapHVs(u)
		return e.mk(sel(sel(e.t.h.get(e.elemState(base), val), base.term), i.term), u.Elem())
	case *types.Basic:
		return intv(sel("(str_bytes "+base.term+")", i.term))
	case *types.Array:
		return e.mk(sel(base.term, i.term), u.Elem())
	}
	e.fail("cannot index %s", base.typ)
	return sval{}
}

func (e *evalCtx) sliceExpr(x *sx) sval {
	base := e.eval(x.args[0])
	lo := "0"
	if x.args[1] != nil {
		lo = e.eval(x.args[1]).term
	}
	if base.sort != "Slice" {
		e.fail("slice of non-slice")
	}
	hi := "(sl_len " + base.term + ")"
	if x.args[2] != nil {
		hi = e.eval(x.args[2]).term
	}
	return sval{term: fmt.Sprintf("(mk_slice (sl_arr %s) (+ (sl_off %s) %s) (- %s %s) (- (sl_cap %s) %s))", base.term, base.term, lo, hi, lo, base.term, lo), typ: base.typ, sort: "Slice", st: base.st}
}

func (e *evalCtx) boundVar(name, sort string) (string, *evalCtx) {
	n := q(e.t.c.fresh(name))
	return n, e.bind(name, sval{term: n, sort: sort})
}

func (e *evalCtx) callExpr(x *sx) sval {
	f := x.args[0]
	args := x.args[1:]
	if f.op == "sel" {
		// method call in a spec: pure methods as uninterpreted functions
		recv := e.eval(f.args[0])
		return e.pureMethod(recv, f.val, args)
	}
	if f.op != "id" {
		e.fail("call of non-identifier")
	}
	t := e.t
	switch f.val {
	case "old":
		if e.old == nil {
			e.fail("old() not available here")
		}
		eo := e.with(e.old)
		eo.inOld = true
		v := eo.eval(args[0])
		if v.st == nil {
			v.st = e.old
		}
		return v
	case "at":
		if args[0].op != "str" {
			e.fail("at(\"label\", e)")
		}
		st, ok := t.siteState[args[0].val]
		if !ok {
			e.fail("unknown site %q", args[0].val)
		}
		v := e.with(st).eval(args[1])
		if v.st == nil {
			v.st = st
		}
		return v
	case "snap":
		// snap(e): value of e with element reads pinned to the evaluation state
		v := e.eval(args[0])
		v.st = e.st
		return v
	case "forall", "exists":
		if len(args) == 4 {
			if args[0].op != "id" {
				e.fail("quantifier variable")
			}
			n, e2 := e.boundVar(args[0].val, "Int")
			lo, hi := e.eval(args[1]), e.eval(args[2])
			body := e2.eval(args[3])
			rng := fmt.Sprintf("(and (<= %s %s) (< %s %s))", lo.term, n, n, hi.term)
			if f.val == "forall" {
				return boolv(fmt.Sprintf("(forall ((%s Int)) (=> %s %s))", n, rng, body.term))
			}
			return boolv(fmt.Sprintf("(exists ((%s Int)) (and %s %s))", n, rng, body.term))
		}
		if len(args) == 2 {
			// forall(k, body): unbounded Int
			n, e2 := e.boundVar(args[0].val, "Int")
			body := e2.eval(args[1])
			kw := "forall"
			if f.val == "exists" {
				kw = "exists"
			}
			return boolv(fmt.Sprintf("(%s ((%s Int)) %s)", kw, n, body.term))
		}
		if len(args) == 3 {
			// forall(k, m, body): k ranges over the keys of map m
			m := e.eval(args[1])
			mt, ok := m.typ.Underlying().(*types.Map)
			if !ok {
				e.fail("forall(k, map, body)")
			}
			ks := t.sortOf(mt.Key())
			n := q(t.c.fresh(args[0].val))
			e2 := e.bind(args[0].val, sval{term: n, sort: ks, typ: mt.Key()})
			dom, _, _ := t.mapHVs(mt)
			body := e2.eval(args[2])
			in := sel(sel(t.h.get(e.elemState(m), dom), m.term), n)
			if f.val == "forall" {
				return boolv(fmt.Sprintf("(forall ((%s %s)) (=> %s %s))", n, ks, in, body.term))
			}
			return boolv(fmt.Sprintf("(exists ((%s %s)) (and %s %s))", n, ks, in, body.term))
		}
		e.fail("quantifier arity")
	case "len":
		v := e.eval(args[0])
		switch v.sort {
		case "Slice":
			return intv("(sl_len " + v.term + ")")
		case "Str":
			return intv("(str_len " + v.term + ")")
		}
		if v.typ != nil {
			if _, ok := v.typ.Underlying().(*types.Map); ok {
				return intv(sel(t.h.get(e.elemState(v), "ML"), v.term))
			}
		}
		e.fail("len of %s", v.sort)
	case "cap":
		v := e.eval(args[0])
		if v.sort == "Slice" {
			return intv("(sl_cap " + v.term + ")")
		}
		return intv("(chan_cap " + v.term + ")")
	case "has":
		m := e.eval(args[0])
		k := e.eval(args[1])
		mt, ok := m.typ.Underlying().(*types.Map)
		if !ok {
			e.fail("has(map, key)")
		}
		dom, _, _ := t.mapHVs(mt)
		return boolv(sel(sel(t.h.get(e.elemState(m), dom), m.term), k.term))
	case "held":
		v := e.eval(args[0])
		return boolv(sel(t.h.get(e.st, "held"), v.term))
	case "shared":
		v := e.eval(args[0])
		t.h.reg(sharedHV, "(Array Int Bool)")
		return boolv(sel(t.h.get(e.st, sharedHV), v.term))
	case "closed":
		v := e.eval(args[0])
		return boolv(sel(t.h.get(e.st, "chclosed"), v.term))
	case "isnil":
		v := e.eval(args[0])
		switch v.sort {
		case "Iface":
			return boolv("(= (itag " + v.term + ") 0)")
		case "Slice":
			return boolv("(= " + v.term + " nil_slice)")
		}
		return boolv("(= " + v.term + " 0)")
	case "be32", "be16", "be64":
		// be32(slice) or be32(slice, off): big-endian value of the bytes
		v := e.eval(args[0])
		off := "0"
		if len(args) > 1 {
			off = e.eval(args[1]).term
		}
		arr := sel(t.h.get(e.elemState(v), "E:Int"), "(sl_arr "+v.term+")")
		return intv("(" + f.val + " " + arr + " (+ (sl_off " + v.term + ") " + off + "))")
	case "eqseq":
		// eqseq(a, b): same length and same elements
		a, b := e.eval(args[0]), e.eval(args[1])
		return boolv(e.seqEq(a, b))
	case "isprefix":
		// isprefix(p, s) : p is a prefix of s
		p, s := e.eval(args[0]), e.eval(args[1])
		return boolv(e.isPrefix(p, s))
	case "ev":
		// ev("kind", key): ghost event flag
		if args[0].op != "str" {
			e.fail("ev(\"kind\", key)")
		}
		k := e.eval(args[1])
		hv := t.h.reg("ghost:"+args[0].val, "(Array Int Bool)")
		return boolv(sel(t.h.get(e.st, hv), k.term))
	case "evarg":
		k := e.eval(args[1])
		hv := t.h.reg("ghost:"+args[0].val+".arg", "(Array Int Int)")
		return intv(sel(t.h.get(e.st, hv), k.term))
	case "evcount":
		hv := t.h.reg("ghost:"+args[0].val+".n", "Int")
		return intv(t.h.get(e.st, hv))
	case "fn_is":
		// fn_is(v, "relpkg:name"): the function value v runs that function / closure / bound method
		if len(args) != 2 || args[1].op != "str" {
			e.fail("fn_is(value, \"relpkg:name\")")
		}
		if !t.g.knownFnKey(args[1].val) {
			e.fail("fn_is: no function %q in the module", args[1].val)
		}
		v := e.eval(args[0])
		return boolv("(= (fnid " + v.term + ") " + nameTag("fn:"+args[1].val) + ")")
	case "isprint":
		v := e.eval(args[0])
		return boolv("(isprint " + v.term + ")")
	case "called":
		// called("Name"): this activation has called a function / method of that name
		if e.fn != t.fn {
			// a callee's own event log says nothing about the caller's: no information
			return boolv(t.c.declare(t.c.fresh("calleelog"), "Bool"))
		}
		tag := nameTag("callee:"+args[0].val)
		hv := t.h.reg("ghost:called", "(Array Int Bool)")
		return boolv(sel(t.h.get(e.st, hv), tag))
	case "loop_reached":
		// loop_reached(N): control reached the head of loop N during this activation
		if args[0].op != "int" && args[0].op != "num" {
			// fall through to the generic evaluation of the argument
		}
		if e.fn != t.fn {
			return boolv(t.c.declare(t.c.fresh("calleelog"), "Bool"))
		}
		n := e.eval(args[0])
		hv := t.h.reg("ghost:loopreached", "(Array Int Bool)")
		return boolv(sel(t.h.get(e.st, hv), n.term))
	case "called_since":
		// called_since("site", "Name"): a call of that name happened after the given site state
		if args[0].op != "str" || args[1].op != "str" {
			e.fail("called_since(\"site\", \"Name\")")
		}
		if e.fn != t.fn {
			return boolv(t.c.declare(t.c.fresh("calleelog"), "Bool"))
		}
		st, ok := t.siteState[args[0].val]
		if !ok {
			e.fail("unknown site %q", args[0].val)
		}
		tag := nameTag("callee:"+args[1].val)
		hv := t.h.reg("ghost:called.cnt", "(Array Int Int)")
		return boolv("(> " + sel(t.h.get(e.st, hv), tag) + " " + sel(t.h.get(st, hv), tag) + ")")
	case "spawned":
		// spawned("name"): a goroutine / timer callback of that function was started
		if e.fn != t.fn {
			return boolv(t.c.declare(t.c.fresh("calleelog"), "Bool"))
		}
		tag := nameTag("spawn:"+args[0].val)
		hv := t.h.reg("ghost:spawned", "(Array Int Bool)")
		return boolv(sel(t.h.get(e.st, hv), tag))
	case "timer_d":
		v := e.eval(args[0])
		fn := t.c.declareFun("timer_d", []string{"Int"}, "Int")
		return intv("(" + fn + " " + v.term + ")")
	case "tagof":
		// tagof(x): dynamic type tag of an interface value
		v := e.eval(args[0])
		return intv("(itag " + v.term + ")")
	case "is_int", "is_bool", "is_string", "is_duration":
		v := e.eval(args[0])
		ty := map[string]types.Type{"is_int": types.Typ[types.Int], "is_bool": types.Typ[types.Bool], "is_string": types.Typ[types.String]}[f.val]
		if f.val == "is_duration" {
			ty = t.g.namedType("time", "Duration")
		}
		return boolv(fmt.Sprintf("(= (itag %s) %d)", v.term, t.g.tagOf(ty)))
	case "is_type":
		// is_type(x, "*T"): the dynamic type of interface value x is (pointer to) type T of this package
		if len(args) != 2 || args[1].op != "str" {
			e.fail("is_type(x, \"*T\")")
		}
		v := e.eval(args[0])
		name := strings.TrimPrefix(args[1].val, "*")
		T := e.specType(name)
		if T == nil {
			e.fail("is_type: no type %s in this package", name)
		}
		if strings.HasPrefix(args[1].val, "*") {
			T = types.NewPointer(T)
		}
		return boolv(fmt.Sprintf("(= (itag %s) %d)", v.term, t.g.tagOf(T)))
	case "int_of":
		v := e.eval(args[0])
		return intv("(iint " + v.term + ")")
	case "bool_of":
		v := e.eval(args[0])
		return boolv("(ibool " + v.term + ")")
	case "str_of":
		v := e.eval(args[0])
		return sval{term: "(istr " + v.term + ")", sort: "Str", typ: types.Typ[types.String]}
	case "iface":
		// iface(x): x wrapped as interface value (for comparing with interface results)
		v := e.eval(args[0])
		if v.typ == nil {
			v.typ = types.Typ[types.Int]
			if v.sort == "Bool" {
				v.typ = types.Typ[types.Bool]
			}
		}
		return sval{term: t.mkIface(v.typ, v.term), sort: "Iface"}
	case "ite":
		c, a, b := e.eval(args[0]), e.eval(args[1]), e.eval(args[2])
		a, b = e.coerce(a, b)
		return sval{term: ite(c.term, a.term, b.term), sort: a.sort, typ: a.typ}
	case "unchanged":
		// unchanged(x.f, ...): field values equal to their old() values;
		// unchanged("site", x.f, ...): equal to their values at that site (e.g. after the lock was taken)
		var cs []string
		base := e.old
		if len(args) > 0 && args[0].op == "str" {
			st, ok := t.siteState[args[0].val]
			if !ok {
				if e.fn == t.fn && t.hasSite(args[0].val) {
					// the site exists but has not been translated: blocks come in a topological order of
					// the loop-cut CFG, so it is not on any path to this point and "the state at that site"
					// denotes nothing here: an arbitrary truth value (the clause must guard its use)
					return boolv(t.c.declare(t.c.fresh("unreached.site"), "Bool"))
				}
				e.fail("unknown site %q", args[0].val)
			}
			base = st
			args = args[1:]
		}
		for _, a := range args {
			now := e.eval(a)
			was := e.with(base).eval(a)
			cs = append(cs, eq(now.term, was.term))
			if now.typ != nil {
				if mt, ok := now.typ.Underlying().(*types.Map); ok {
					// a map is unchanged when it is the same map with the same keys and values
					dom, val, _ := t.mapHVs(mt)
					ew := e.with(base)
					cs = append(cs, eq(sel(t.h.get(e.elemState(now), dom), now.term), sel(t.h.get(ew.elemState(was), dom), was.term)))
					cs = append(cs, eq(sel(t.h.get(e.elemState(now), val), now.term), sel(t.h.get(ew.elemState(was), val), was.term)))
				}
			}
		}
		return boolv(and(cs...))
	case "cast":
		// cast("*T", x): the payload of interface value x (or a pointer) viewed as type T of this package
		if args[0].op != "str" {
			e.fail("cast(\"*T\", x)")
		}
		v := e.eval(args[1])
		name := strings.TrimPrefix(args[0].val, "*")
		T := e.specType(name)
		if T == nil {
			e.fail("cast: unknown type %s", name)
		}
		if strings.HasPrefix(args[0].val, "*") {
			T = types.NewPointer(T)
		}
		if v.sort == "Iface" {
			return e.mk(t.ifacePayload(T, v.term), T)
		}
		return e.mk(v.term, T)
	case "callee_is":
		// callee_is("(*pkg.T).M"): the call this clause is attached to statically calls that function
		if args[0].op != "str" {
			e.fail("callee_is(\"name\")")
		}
		return boolv(fmt.Sprint(t.curCallee == args[0].val))
	case "selwaits", "selsends":
		// selwaits(ch) / selwaits("select#n", ch): that select has a receive case on channel ch
		// selsends(ch): ... a send case on ch.  Without a label: the select this clause is attached to.
		cases := t.curSel
		arg := args[0]
		if len(args) == 2 {
			if args[0].op != "str" {
				e.fail("%s(\"select#n\", ch)", f.val)
			}
			cs, ok := t.selCases[args[0].val]
			if !ok {
				e.fail("unknown or not yet executed select %q", args[0].val)
			}
			cases, arg = cs, args[1]
		}
		ch := e.eval(arg)
		var alts []string
		for _, c := range cases {
			if c.send == (f.val == "selsends") {
				alts = append(alts, eq(c.ch, ch.term))
			}
		}
		// (that the channel is non-nil is the usual trust in fields not declared nullable)
		return boolv(or(alts...))
	case "sel":
		// sel("select#2"): the case index chosen by that select statement
		if args[0].op != "str" {
			e.fail("sel(\"select#n\")")
		}
		found := false
		for _, se := range t.allSites {
			if se.label == args[0].val {
				found = true
			}
		}
		if !found {
			e.fail("unknown select %q", args[0].val)
		}
		// state-based: -2 on paths that have not executed that select
		hv := t.h.reg("ghost:sel:"+args[0].val, "Int")
		return intv(t.h.get(e.st, hv))
	case "now":
		// now(x): x with element reads taken from the evaluation state (drops a snapshot pin)
		v := e.eval(args[0])
		v.st = nil
		return v
	case "arrof":
		v := e.eval(args[0])
		return intv("(sl_arr " + v.term + ")")
	case "same_elems":
		// same_elems(x): the backing array of snapshot slice x has the same contents now
		v := e.eval(args[0])
		sl, ok := v.typ.Underlying().(*types.Slice)
		if !ok || v.st == nil {
			e.fail("same_elems needs a snapshot slice")
		}
		hv := t.elemHV(sl.Elem())
		return boolv(eq(sel(t.h.get(e.st, hv), "(sl_arr "+v.term+")"), sel(t.h.get(v.st, hv), "(sl_arr "+v.term+")")))
	case "fresh_arr":
		// fresh_arr(s): the backing array of slice s was allocated during this call
		// fresh_arr(s, "site"): ... was allocated after that site was (last) passed
		v := e.eval(args[0])
		if len(args) == 2 {
			if args[1].op != "str" {
				e.fail("fresh_arr(s, \"site\")")
			}
			st, ok := t.siteState[args[1].val]
			if !ok {
				e.fail("unknown site %q", args[1].val)
			}
			return boolv("(> (sl_arr " + v.term + ") " + t.h.get(st, "alloc") + ")")
		}
		return boolv("(> (sl_arr " + v.term + ") " + t.h.get(e.old, "alloc") + ")")
	case "atoi_ok", "atoi_val":
		// the trusted model of strconv.Atoi: atoi_ok(s) <=> Atoi(s) succeeds, atoi_val(s) its value
		v := e.eval(args[0])
		if v.sort != "Str" {
			e.fail("%s needs a string", f.val)
		}
		if f.val == "atoi_ok" {
			return boolv("(atoi_ok " + v.term + ")")
		}
		return intv("(atoi_val " + v.term + ")")
	case "pcall":
		// pcall(x, "M"): the result of the argument-less interface method M of x, which the interface
		// contract declares `pure` (the same uninterpreted function a call site of x.M() gets)
		v := e.eval(args[0])
		if args[1].op != "str" || v.sort != "Iface" || v.typ == nil {
			e.fail("pcall(x, \"Method\") needs an interface value and a method name")
		}
		it, okI := v.typ.Underlying().(*types.Interface)
		if !okI {
			e.fail("pcall: %s is not an interface", v.typ)
		}
		var m *types.Func
		for i := 0; i < it.NumMethods(); i++ {
			if it.Method(i).Name() == args[1].val {
				m = it.Method(i)
			}
		}
		if m == nil {
			e.fail("pcall: no method %s", args[1].val)
		}
		sig := m.Type().(*types.Signature)
		if sig.Params().Len() != 0 || sig.Results().Len() != 1 {
			e.fail("pcall: %s must take no arguments and return one value", args[1].val)
		}
		if fc := t.g.ann.ifaces[t.g.ifaceKeyOf(v.typ, m.Name())]; fc == nil || !fc.pure {
			e.fail("pcall: interface method %s has no `pure` contract", args[1].val)
		}
		rt := sig.Results().At(0).Type()
		fn := t.c.declareFun("pure:"+m.Name()+":Iface", []string{"Iface"}, t.sortOf(rt))
		return e.mk("("+fn+" "+v.term+")", rt)
	case "hasprefix":
		// hasprefix(s, p): strings.HasPrefix(s, p) (the same uninterpreted function the library model uses)
		a, b := e.eval(args[0]), e.eval(args[1])
		if a.sort != "Str" || b.sort != "Str" {
			e.fail("hasprefix() needs two strings")
		}
		hp := t.c.declareFun("str_hasprefix", []string{"Str", "Str"}, "Bool")
		return boolv("(" + hp + " " + a.term + " " + b.term + ")")
	case "str":
		// str(b): the string conversion string(b) of a byte slice (same term the code's conversion gets)
		v := e.eval(args[0])
		if v.sort != "Slice" {
			e.fail("str() needs a byte slice")
		}
		t.h.reg("E:Int", "(Array Int (Array Int Int))")
		arr := sel(t.h.get(e.elemState(v), "E:Int"), "(sl_arr "+v.term+")")
		return sval{term: fmt.Sprintf("(bytes_str %s (sl_off %s) (sl_len %s))", arr, v.term, v.term), sort: "Str", typ: types.Typ[types.String]}
	case "deref":
		// deref(p): the value p points to (pointer to a scalar)
		v := e.eval(args[0])
		pt, ok := v.typ.Underlying().(*types.Pointer)
		if !ok {
			e.fail("deref of non-pointer")
		}
		if st, ok := t.isStruct(pt.Elem()); ok && st.NumFields() > 0 {
			e.fail("deref of struct pointer: use field selectors")
		}
		hv := t.cellHV(pt.Elem())
		return sval{term: sel(t.h.get(e.st, hv), v.term), sort: t.sortOf(pt.Elem()), typ: pt.Elem()}
	case "fresh":
		// fresh(p): allocated during this call (not present in the old state)
		// fresh(p, "site"): allocated after that site was (last) passed
		v := e.eval(args[0])
		if len(args) == 2 {
			if args[1].op != "str" {
				e.fail("fresh(p, \"site\")")
			}
			st, ok := t.siteState[args[1].val]
			if !ok {
				e.fail("unknown site %q", args[1].val)
			}
			return boolv("(> " + v.term + " " + t.h.get(st, "alloc") + ")")
		}
		return boolv("(> " + v.term + " " + t.h.get(e.old, "alloc") + ")")
	}
	// prelude / uninterpreted spec functions
	if sf, ok := specFuncs[f.val]; ok {
		return sf(e, args)
	}
	e.fail("unknown spec function %s", f.val)
	return sval{}
}

var specFuncs = map[string]func(e *evalCtx, args []*sx) sval{}

// specType: a type named in a contract: `T` of the function's own package, or `import/path.T`.
func (e *evalCtx) specType(name string) types.Type {
	if i := strings.LastIndex(name, "."); i > 0 {
		return e.t.g.namedType(name[:i], name[i+1:])
	}
	if pkg := e.pkg(); pkg != nil {
		if o := pkg.Scope().Lookup(name); o != nil {
			return o.Type()
		}
	}
	return nil
}

func (g *Gen) namedType(pkg, name string) types.Type {
	for _, p := range g.prog.AllPackages() {
		if p.Pkg.Path() == pkg {
			if o := p.Pkg.Scope().Lookup(name); o != nil {
				return o.Type()
			}
		}
	}
	return nil
}

// pure methods: uninterpreted functions of the receiver (and arguments)
func (e *evalCtx) pureMethod(recv sval, name string, args []*sx) sval {
	t := e.t
	if recv.typ == nil {
		e.fail("method on untyped value")
	}
	obj, _, _ := types.LookupFieldOrMethod(recv.typ, true, e.pkgFor(recv.typ), name)
	m, ok := obj.(*types.Func)
	if !ok {
		e.fail("no method %s on %s", name, recv.typ)
	}
	sig := m.Type().(*types.Signature)
	if sig.Results().Len() != 1 {
		e.fail("pure method must have one result")
	}
	rt := sig.Results().At(0).Type()
	fn := t.pureFn(m, recv.sort, rt)
	as := []string{recv.term}
	for _, a := range args {
		as = append(as, e.eval(a).term)
	}
	return e.mk("("+fn+" "+strings.Join(as, " ")+")", rt)
}

func (t *fnTrans) pureFn(m *types.Func, recvSort string, rt types.Type) string {
	sig := m.Type().(*types.Signature)
	sorts := []string{recvSort}
	for i := 0; i < sig.Params().Len(); i++ {
		sorts = append(sorts, t.sortOf(sig.Params().At(i).Type()))
	}
	return t.c.declareFun("pure:"+m.Name()+":"+bare(recvSort), sorts, t.sortOf(rt))
}

func (e *evalCtx) seqEq(a, b sval) string {
	t := e.t
	if a.sort != "Slice" || b.sort != "Slice" {
		e.fail("eqseq needs slices")
	}
	sl := a.typ.Underlying().(*types.Slice)
	hv := t.elemHV(sl.Elem())
	aa := sel(t.h.get(e.elemState(a), hv), "(sl_arr "+a.term+")")
	ba := sel(t.h.get(e.elemState(b), hv), "(sl_arr "+b.term+")")
	if hv == "E:Int" {
		// byte/integer sequences: the same (axiomatized) predicate the bytes.Equal model uses,
		// so that a witness found by the code carries over to an exists() in a contract
		t.h.reg("E:Int", "(Array Int (Array Int Int))")
		return fmt.Sprintf("(byteseq %s (sl_off %s) (sl_len %s) %s (sl_off %s) (sl_len %s))", aa, a.term, a.term, ba, b.term, b.term)
	}
	j := q(t.c.fresh("j"))
	return fmt.Sprintf("(and (= (sl_len %s) (sl_len %s)) (forall ((%s Int)) (=> (and (<= 0 %s) (< %s (sl_len %s))) (= (select %s (ix (sl_off %s) %s)) (select %s (ix (sl_off %s) %s))))))",
		a.term, b.term, j, j, j, a.term, aa, a.term, j, ba, b.term, j)
}

func (e *evalCtx) isPrefix(p, s sval) string {
	t := e.t
	t.h.reg("E:Int", "(Array Int (Array Int Int))")
	fn := "isprefix"
	pa := sel(t.h.get(e.elemState(p), "E:Int"), "(sl_arr "+p.term+")")
	sa := sel(t.h.get(e.elemState(s), "E:Int"), "(sl_arr "+s.term+")")
	return fmt.Sprintf("(%s %s (sl_off %s) (sl_len %s) %s (sl_off %s) (sl_len %s))", fn, pa, p.term, p.term, sa, s.term, s.term)
}
