package main

// Parser for contract expressions (DESIGN Appendix B):
//   Go expression syntax plus  a ==> b,  a <==> b,  old(e), at(label, e),
//   forall(i, lo, hi, e), exists(i, lo, hi, e), result / resultN.

import (
	"fmt"
	"strconv"
	"strings"
	"unicode"
)

type sx struct {
	op   string // "id","num","str","un","bin","sel","idx","slice","call","quant"
	val  string
	args []*sx
}

type sparser struct {
	toks []string
	pos  int
	src  string
}

func tokenizeSpec(s string) ([]string, error) {
	var toks []string
	i := 0
	for i < len(s) {
		c := s[i]
		switch {
		case c == ' ' || c == '\t':
			i++
		case unicode.IsLetter(rune(c)) || c == '_':
			j := i
			for j < len(s) && (unicode.IsLetter(rune(s[j])) || unicode.IsDigit(rune(s[j])) || s[j] == '_' || s[j] == '$' || s[j] == '#') {
				j++
			}
			toks = append(toks, s[i:j])
			i = j
		case unicode.IsDigit(rune(c)):
			j := i
			for j < len(s) && (unicode.IsDigit(rune(s[j])) || s[j] == 'x' || (s[j] >= 'a' && s[j] <= 'f') || (s[j] >= 'A' && s[j] <= 'F')) {
				j++
			}
			toks = append(toks, s[i:j])
			i = j
		case c == '"':
			j := i + 1
			for j < len(s) && s[j] != '"' {
				if s[j] == '\\' {
					j++
				}
				j++
			}
			if j >= len(s) {
				return nil, fmt.Errorf("unterminated string")
			}
			toks = append(toks, s[i:j+1])
			i = j + 1
		case c == '\'':
			// char literal 'S'
			if i+2 < len(s) && s[i+2] == '\'' {
				toks = append(toks, fmt.Sprint(int(s[i+1])))
				i += 3
			} else {
				return nil, fmt.Errorf("bad char literal")
			}
		default:
			for _, op := range []string{"<==>", "==>", "&&", "||", "==", "!=", "<=", ">=", "<<", ">>"} {
				if strings.HasPrefix(s[i:], op) {
					toks = append(toks, op)
					i += len(op)
					goto next
				}
			}
			toks = append(toks, string(c))
			i++
		next:
		}
	}
	return toks, nil
}

func parseSpec(s string) (*sx, error) {
	toks, err := tokenizeSpec(s)
	if err != nil {
		return nil, err
	}
	p := &sparser{toks: toks, src: s}
	e, err := p.parseIff()
	if err != nil {
		return nil, err
	}
	if p.pos != len(p.toks) {
		return nil, fmt.Errorf("unexpected %q in %q", p.toks[p.pos], s)
	}
	return e, nil
}

func (p *sparser) peek() string {
	if p.pos < len(p.toks) {
		return p.toks[p.pos]
	}
	return ""
}
func (p *sparser) next() string { t := p.peek(); p.pos++; return t }
func (p *sparser) expect(t string) error {
	if p.peek() != t {
		return fmt.Errorf("expected %q, got %q in %q", t, p.peek(), p.src)
	}
	p.pos++
	return nil
}

func (p *sparser) parseIff() (*sx, error) {
	l, err := p.parseImp()
	if err != nil {
		return nil, err
	}
	for p.peek() == "<==>" {
		p.next()
		r, err := p.parseImp()
		if err != nil {
			return nil, err
		}
		l = &sx{op: "bin", val: "<==>", args: []*sx{l, r}}
	}
	return l, nil
}

func (p *sparser) parseImp() (*sx, error) {
	l, err := p.parseOr()
	if err != nil {
		return nil, err
	}
	if p.peek() == "==>" {
		p.next()
		r, err := p.parseImp()
		if err != nil {
			return nil, err
		}
		return &sx{op: "bin", val: "==>", args: []*sx{l, r}}, nil
	}
	return l, nil
}

func (p *sparser) parseOr() (*sx, error) {
	l, err := p.parseAnd()
	if err != nil {
		return nil, err
	}
	for p.peek() == "||" {
		p.next()
		r, err := p.parseAnd()
		if err != nil {
			return nil, err
		}
		l = &sx{op: "bin", val: "||", args: []*sx{l, r}}
	}
	return l, nil
}

func (p *sparser) parseAnd() (*sx, error) {
	l, err := p.parseCmp()
	if err != nil {
		return nil, err
	}
	for p.peek() == "&&" {
		p.next()
		r, err := p.parseCmp()
		if err != nil {
			return nil, err
		}
		l = &sx{op: "bin", val: "&&", args: []*sx{l, r}}
	}
	return l, nil
}

func (p *sparser) parseCmp() (*sx, error) {
	l, err := p.parseAdd()
	if err != nil {
		return nil, err
	}
	switch p.peek() {
	case "==", "!=", "<", "<=", ">", ">=":
		op := p.next()
		r, err := p.parseAdd()
		if err != nil {
			return nil, err
		}
		return &sx{op: "bin", val: op, args: []*sx{l, r}}, nil
	}
	return l, nil
}

func (p *sparser) parseAdd() (*sx, error) {
	l, err := p.parseMul()
	if err != nil {
		return nil, err
	}
	for p.peek() == "+" || p.peek() == "-" {
		op := p.next()
		r, err := p.parseMul()
		if err != nil {
			return nil, err
		}
		l = &sx{op: "bin", val: op, args: []*sx{l, r}}
	}
	return l, nil
}

func (p *sparser) parseMul() (*sx, error) {
	l, err := p.parseUnary()
	if err != nil {
		return nil, err
	}
	for p.peek() == "*" || p.peek() == "/" || p.peek() == "%" {
		op := p.next()
		r, err := p.parseUnary()
		if err != nil {
			return nil, err
		}
		l = &sx{op: "bin", val: op, args: []*sx{l, r}}
	}
	return l, nil
}

func (p *sparser) parseUnary() (*sx, error) {
	switch p.peek() {
	case "!":
		p.next()
		e, err := p.parseUnary()
		if err != nil {
			return nil, err
		}
		return &sx{op: "un", val: "!", args: []*sx{e}}, nil
	case "-":
		p.next()
		e, err := p.parseUnary()
		if err != nil {
			return nil, err
		}
		return &sx{op: "un", val: "-", args: []*sx{e}}, nil
	}
	return p.parsePostfix()
}

func (p *sparser) parsePostfix() (*sx, error) {
	e, err := p.parsePrimary()
	if err != nil {
		return nil, err
	}
	for {
		switch p.peek() {
		case ".":
			p.next()
			name := p.next()
			if name == "" {
				return nil, fmt.Errorf("field name expected in %q", p.src)
			}
			e = &sx{op: "sel", val: name, args: []*sx{e}}
		case "[":
			p.next()
			var lo, hi *sx
			if p.peek() != ":" {
				lo, err = p.parseIff()
				if err != nil {
					return nil, err
				}
			}
			if p.peek() == ":" {
				p.next()
				if p.peek() != "]" {
					hi, err = p.parseIff()
					if err != nil {
						return nil, err
					}
				}
				if err := p.expect("]"); err != nil {
					return nil, err
				}
				e = &sx{op: "slice", args: []*sx{e, lo, hi}}
				continue
			}
			if err := p.expect("]"); err != nil {
				return nil, err
			}
			e = &sx{op: "idx", args: []*sx{e, lo}}
		case "(":
			p.next()
			var args []*sx
			for p.peek() != ")" {
				a, err := p.parseIff()
				if err != nil {
					return nil, err
				}
				args = append(args, a)
				if p.peek() == "," {
					p.next()
				} else if p.peek() != ")" {
					return nil, fmt.Errorf("expected , or ) in %q", p.src)
				}
			}
			p.next()
			e = &sx{op: "call", args: append([]*sx{e}, args...)}
		default:
			return e, nil
		}
	}
}

func (p *sparser) parsePrimary() (*sx, error) {
	t := p.next()
	switch {
	case t == "":
		return nil, fmt.Errorf("unexpected end of %q", p.src)
	case t == "(":
		e, err := p.parseIff()
		if err != nil {
			return nil, err
		}
		if err := p.expect(")"); err != nil {
			return nil, err
		}
		return e, nil
	case t[0] == '"':
		if u, err := strconv.Unquote(t); err == nil {
			return &sx{op: "str", val: u}, nil
		}
		return &sx{op: "str", val: t[1 : len(t)-1]}, nil
	case unicode.IsDigit(rune(t[0])):
		var n int64
		if strings.HasPrefix(t, "0x") {
			fmt.Sscanf(t[2:], "%x", &n)
		} else {
			fmt.Sscanf(t, "%d", &n)
		}
		return &sx{op: "num", val: fmt.Sprint(n)}, nil
	case unicode.IsLetter(rune(t[0])) || t[0] == '_':
		return &sx{op: "id", val: t}, nil
	}
	return nil, fmt.Errorf("unexpected %q in %q", t, p.src)
}
