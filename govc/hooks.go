package main

import (
	"fmt"
	"go/ast"
	"go/token"
	"go/types"
	"sort"
	"strings"

	"golang.org/x/tools/go/ssa"
)

func identName(e interface{}) string {
	switch x := e.(type) {
	case *ast.Ident:
		return x.Name
	}
	return ""
}

// ---- function entry ------------------------------------------------------------

func (t *fnTrans) setupParams() {
	fn := t.fn
	t.h.reg("alloc", "Int")
	t.h.reg("held", "(Array Int Bool)")
	t.h.reg("rheld", "(Array Int Bool)")
	t.h.reg("chclosed", "(Array Int Bool)")
	t.h.reg("ML", "(Array Int Int)")
	t.h.reg("E:Int", "(Array Int (Array Int Int))")
	t.assume("(<= 0 " + t.h.get(t.cur, "alloc") + ")")
	for i, p := range fn.Params {
		n := t.c.declare(p.Name(), t.sortOf(p.Type()))
		t.vals[p] = []string{n}
		t.assumeType(n, p.Type())
		t.assumeTypeInv(n, p.Type())
		isRecv := i == 0 && fn.Signature.Recv() != nil
		switch p.Type().Underlying().(type) {
		case *types.Pointer, *types.Map, *types.Chan, *types.Signature:
			if isRecv || !(t.contract != nil && t.contract.nullable[t.g.contractName(t.key, p.Name())]) {
				if isRecv || t.g.ann != nil {
					if !(t.contract != nil && t.contract.nullable[t.g.contractName(t.key, p.Name())]) {
						t.assume("(not (= " + n + " 0))")
					}
				}
			}
		case *types.Interface:
			if !(t.contract != nil && t.contract.nullable[t.g.contractName(t.key, p.Name())]) {
				if _, isErr := p.Type().(*types.Named); !(isErr && p.Type().String() == "error") {
					// interface parameters other than error are trusted non-nil
					if types.TypeString(p.Type(), nil) != "interface{}" && types.TypeString(p.Type(), nil) != "any" {
						t.assume("(not (= (itag " + n + ") 0))")
					}
				}
			}
		}
	}
	for _, fv := range fn.FreeVars {
		n := t.c.declare("fv:"+fv.Name(), t.sortOf(fv.Type()))
		t.vals[fv] = []string{n}
		t.assumeType(n, fv.Type())
		t.assume("(not (= " + n + " 0))")
		if a := t.g.captured(t.fn, fv); a != nil && t.g.singleStore(a) {
			ty := fv.Type().(*types.Pointer).Elem()
			if _, isSt := ty.Underlying().(*types.Struct); !isSt {
				v := t.c.declare("fvv:"+fv.Name(), t.sortOf(ty))
				t.assumeType(v, ty)
				if _, isPtr := ty.Underlying().(*types.Pointer); isPtr {
					t.assume("(not (= " + v + " 0))")
				}
				t.stable[fv] = v
			}
		}
	}
	t.closureFacts()
	t.packageInvariants()
	t.methodInvEntry()
}

// atEntry: lock preconditions (held set at entry).
func (t *fnTrans) atEntry() {
	heldInit := "((as const (Array Int Bool)) false)"
	if t.contract != nil {
		e := t.selfCtx()
		e.locals = false
		for _, path := range append(append([]string{}, t.contract.holds...), t.contract.releases...) {
			k, _, lf, ok := t.lockKeyExpr(e, path)
			if !ok {
				t.g.ann.errs = append(t.g.ann.errs, fmt.Sprintf("%s: cannot resolve held lock %q", t.key, path))
				continue
			}
			t.lockKeys = append(t.lockKeys, lockKeyRef{k, lf})
			heldInit = store(heldInit, k, "true")
		}
	}
	t.assume(eq(t.h.get(t.cur, "held"), heldInit))
	t.assume(eq(t.h.get(t.cur, "rheld"), "((as const (Array Int Bool)) false)"))
	t.ownEntry()
	t.tokEntry()
	// the event log of this activation starts empty
	for _, k := range []string{"spawned", "sent", "freed", "closed", "armed", "stopped", "fired", "broadcast", "read", "called", "loopreached"} {
		hv := t.h.reg("ghost:"+k, "(Array Int Bool)")
		t.assume(eq(t.h.get(t.cur, hv), "((as const (Array Int Bool)) false)"))
		hn := t.h.reg("ghost:"+k+".n", "Int")
		t.assume(eq(t.h.get(t.cur, hn), "0"))
	}
	for _, se := range t.allSites {
		st := se.label
		if strings.HasPrefix(st, "select#") {
			hv := t.h.reg("ghost:sel:"+st, "Int")
			t.assume(eq(t.h.get(t.cur, hv), "(- 2)"))
		}
	}
	if t.contract != nil {
		for _, sls := range t.contract.atSet {
			for _, sl := range sls {
				if i := strings.Index(sl.text, "="); i > 0 {
					name := strings.TrimSpace(sl.text[:i])
					rhs := strings.TrimSpace(sl.text[i+1:])
					srt, zero := "Int", "0"
					if rhs == "true" || rhs == "false" || strings.ContainsAny(rhs, "=<>!&|") {
						srt, zero = "Bool", "false"
					}
					if strings.HasSuffix(name, ":bool") {
						name, srt, zero = strings.TrimSuffix(name, ":bool"), "Bool", "false"
					}
					hv := t.h.reg("ghost:u:"+name, srt)
					t.assume(eq(t.h.get(t.cur, hv), zero))
				}
			}
		}
	}
	t.contractEntry()
	if t.g.canary && t.contract != nil {
		// vacuity guard: `false` must be refutable under the preconditions and invariants
		save := t.cur.reach
		o := t.oblige("canary", "entry", t.fn.Pos(), "false", "canary: must be refuted (sat)")
		o.Trivial = false
		t.cur.reach = save
	}
}

func (t *fnTrans) globalByName(name string) *ssa.Global {
	pkg := t.fn.Pkg
	if pkg == nil && t.fn.Parent() != nil {
		pkg = t.fn.Parent().Pkg
	}
	if pkg == nil {
		return nil
	}
	if m, ok := pkg.Members[name]; ok {
		if g, ok := m.(*ssa.Global); ok {
			return g
		}
	}
	return nil
}

// ---- returns ----------------------------------------------------------------------

func (t *fnTrans) atReturn(in *ssa.Return, rs []string) {
	// lock.balance: held set on exit = held set required (entry set by default)
	want := "((as const (Array Int Bool)) false)"
	if t.contract != nil {
		e := t.selfCtx()
		e.locals = false
		e.st = t.entry
		for _, path := range append(append([]string{}, t.contract.holds...), t.contract.acquires...) {
			if k, _, _, ok := t.lockKeyExpr(e, path); ok {
				want = store(want, k, "true")
			}
		}
	}
	if !(t.contract != nil && t.contract.nolockbalance) {
		disc := "return"
		if d := t.returnDisc(in); d != "" {
			disc = "return@" + d
		}
		t.oblige("lock.balance", disc, in.Pos(), and(eq(t.h.get(t.cur, "held"), want), eq(t.h.get(t.cur, "rheld"), "((as const (Array Int Bool)) false)")), "a lock is still held (or was released twice) when the function returns")
	}
	t.tokRelease("", in.Pos(), "return")
	t.ownReturnHook(in, rs)
	t.contractReturn(in, rs)
	if t.g.canary && t.contract != nil && t.cur.reach != "false" {
		save := t.cur.reach
		o := t.oblige("cover", t.sites[in], in.Pos(), "false", "cover: this return must be reachable under the contract")
		o.Trivial = false
		t.cur.reach = save
	}
}

// returnDisc: a semantic discriminator for a return site: the error constant returned, if any.
func (t *fnTrans) returnDisc(in *ssa.Return) string {
	for _, r := range in.Results {
		if mi, ok := r.(*ssa.MakeInterface); ok {
			if c, ok := mi.X.(*ssa.Const); ok && c.Value != nil {
				// named error constants: find the const object by value through the type
				return t.g.constName(mi.X.Type(), c)
			}
		}
		if u, ok := r.(*ssa.UnOp); ok && u.Op == token.MUL {
			if g, ok := u.X.(*ssa.Global); ok && strings.HasPrefix(g.Name(), "Err") {
				return g.Name()
			}
		}
	}
	return ""
}

func (g *Gen) constName(T types.Type, c *ssa.Const) string {
	n, ok := T.(*types.Named)
	if !ok || n.Obj().Pkg() == nil {
		return ""
	}
	sc := n.Obj().Pkg().Scope()
	for _, name := range sc.Names() {
		if k, ok := sc.Lookup(name).(*types.Const); ok && types.Identical(k.Type(), T) {
			if k.Val().ExactString() == c.Value.ExactString() {
				return name
			}
		}
	}
	return ""
}

// ---- loops ---------------------------------------------------------------------------

func (t *fnTrans) loopModSet(li *loopInfo) (all bool, vars map[string]bool) {
	s := &summary{vars: map[string]bool{}, locks: map[string]bool{}}
	c := t.c
	g := t.g
	for b := range li.blocks {
		for _, in := range b.Instrs {
			switch in := in.(type) {
			case *ssa.Store:
				g.noteStore(c, s, in.Addr)
			case *ssa.MapUpdate:
				m := in.Map.Type().Underlying().(*types.Map)
				dn, vn := g.mapVarNames(m)
				s.vars[dn] = true
				s.vars[vn] = true
				s.vars["ML"] = true
			case *ssa.MakeChan:
				s.vars["chclosed"] = true
			case *ssa.Alloc:
				ty := in.Type().(*types.Pointer).Elem()
				if _, isSt := ty.Underlying().(*types.Struct); isSt {
					g.noteStructStore(c, s, ty)
				} else if at, isArr := ty.Underlying().(*types.Array); isArr {
					s.vars[g.elemHVName(c, at.Elem())] = true
				} else {
					s.vars["C:"+bare(g.sortOf(c, ty))] = true
				}
			case *ssa.MakeSlice:
				sl := in.Type().Underlying().(*types.Slice)
				s.vars[g.elemHVName(c, sl.Elem())] = true
			case *ssa.MakeMap:
				m := in.Type().Underlying().(*types.Map)
				dn, _ := g.mapVarNames(m)
				s.vars[dn] = true
				s.vars["ML"] = true
			case *ssa.Convert:
				if sl, ok := in.Type().Underlying().(*types.Slice); ok {
					s.vars[g.elemHVName(c, sl.Elem())] = true
				}
			case *ssa.Range:
				if m, ok := in.X.Type().Underlying().(*types.Map); ok {
					s.vars["RV:"+bare(g.sortOf(c, m.Key()))] = true
				}
			case *ssa.Next:
				if rg, ok := in.Iter.(*ssa.Range); ok {
					if m, ok := rg.X.Type().Underlying().(*types.Map); ok {
						s.vars["RV:"+bare(g.sortOf(c, m.Key()))] = true
					}
				}
			case ssa.CallInstruction:
				if _, isGo := in.(*ssa.Go); isGo {
					continue
				}
				cc := in.Common()
				if callee := g.staticCallee(cc); callee != nil {
					if callee.Name() == "Clone" && callee.Signature.Recv() != nil && g.isMsgPtr(callee.Signature.Recv().Type()) {
						s.vars[sharedHV] = true
					}
					if g.fnInModule(callee) {
						cs := g.summaries[callee]
						if fc := g.contractOf(callee); fc != nil && fc.hasMods {
							for _, v := range t.modVars(fc, callee) {
								s.vars[v] = true
							}
						} else if cs == nil || cs.all {
							s.all = true
						} else {
							for v := range cs.vars {
								s.vars[v] = true
							}
						}
					} else {
						g.noteExternal(c, s, callee, cc)
					}
					continue
				}
				if b, ok := cc.Value.(*ssa.Builtin); ok && !cc.IsInvoke() {
					g.noteBuiltin(c, s, b, cc)
					continue
				}
				if cc.IsInvoke() {
					if fc := g.ifaceContract(cc); fc != nil && fc.hasMods {
						for _, v := range t.modVars(fc, nil) {
							s.vars[v] = true
						}
						continue
					}
					ts := g.invokeTargets(cc)
					if len(ts) == 0 && g.inModule(cc.Method.Pkg()) {
						s.all = true
					}
					for _, tg := range ts {
						cs := g.summaries[tg]
						if cs == nil || cs.all {
							s.all = true
						} else {
							for v := range cs.vars {
								s.vars[v] = true
							}
						}
					}
					if len(ts) == 0 {
						for _, a := range cc.Args {
							g.noteArgEscape(c, s, a)
						}
					}
					continue
				}
				if mc, ok := cc.Value.(*ssa.MakeClosure); ok {
					cs := g.summaries[mc.Fn.(*ssa.Function)]
					if cs != nil && !cs.all {
						for v := range cs.vars {
							s.vars[v] = true
						}
						continue
					}
				}
				s.all = true
			}
		}
	}
	// ghost state changed by events inside loops
	return s.all, s.vars
}

func (t *fnTrans) enterLoop(b *ssa.BasicBlock, li *loopInfo) {
	entryState := t.cur
	// phi entry values
	var preds []*ssa.BasicBlock
	var conds []string
	for _, p := range b.Preds {
		if isBackEdge(p, b) || t.out[p] == nil {
			continue
		}
		preds = append(preds, p)
		conds = append(conds, t.edgeTerm(p, b))
	}
	entryVals := map[*ssa.Phi]string{}
	var phis []*ssa.Phi
	for _, in := range b.Instrs {
		phi, ok := in.(*ssa.Phi)
		if !ok {
			break
		}
		phis = append(phis, phi)
		var vs []string
		for _, p := range preds {
			for k, bp := range b.Preds {
				if bp == p {
					vs = append(vs, t.val(phi.Edges[k]))
					break
				}
			}
		}
		body := vs[len(vs)-1]
		for i := len(vs) - 2; i >= 0; i-- {
			body = ite(conds[i], vs[i], body)
		}
		entryVals[phi] = body
	}
	t.siteState[fmt.Sprintf("loop%d:entry", li.ord)] = entryState
	t.loopOverCheck(b, li)
	// assert invariants on entry
	t.loopInvariants(li, "inv.entry", entryVals, b.Instrs[0].Pos())
	// havoc
	all, vars := t.loopModSet(li)
	if t.contract != nil {
		for _, m := range t.contract.loopMod[li.ord] {
			vars[m] = true
		}
	}
	if t.contract != nil {
		// user ghost variables updated inside the loop are loop-carried
		for _, se := range t.allSites {
			site := se.label
			if inLoop(li, se.in, se.node) {
				for _, sl := range t.contract.atSet[site] {
					if i := strings.Index(sl.text, "="); i > 0 {
						vars["ghost:u:"+strings.TrimSuffix(strings.TrimSpace(sl.text[:i]), ":bool")] = true
					}
				}
			}
		}
	}
	t.foreignLoop(false, b.Instrs[0].Pos(), fmt.Sprintf("loop%d:entry", li.ord), all, vars)
	t.havocLoop(all, vars)
	t.foreignLoop(true, token.NoPos, "", all, vars)
	for _, phi := range phis {
		t.freshVal(phi)
		t.locs[phi] = nil
		delete(t.locs, phi)
	}
	// select indices: a select inside the loop has not run yet in this iteration; others keep their value
	for _, se := range t.allSites {
		st := se.label
		if !strings.HasPrefix(st, "select#") {
			continue
		}
		hv := t.h.reg("ghost:sel:"+st, "Int")
		if inLoop(li, se.in, se.node) {
			t.h.set(t.cur, hv, "(- 2)")
		} else {
			t.h.set(t.cur, hv, t.h.get(entryState, hv))
		}
	}
	t.tokLoopHead(li, entryState)
	{
		// loop_reached(N): control got to the head of loop N (with `loop N complete`: every element is visited)
		hv := t.h.reg("ghost:loopreached", "(Array Int Bool)")
		t.h.set(t.cur, hv, store(t.h.get(entryState, hv), fmt.Sprint(li.ord), "true"))
	}
	t.siteState[fmt.Sprintf("loop%d:head", li.ord)] = t.cur
	t.cur = t.h.child(t.cur)
	t.loopInvariantsAssume(li)
	t.ownLoopHook(li)
}

// havocLoop: like havocVars, but ghost lock state survives only if the body is lock-balanced,
// which lock.balance@backedge checks.
func (t *fnTrans) havocLoop(all bool, vars map[string]bool) {
	keepGhost := func(hv string) bool {
		if hv == sharedHV || strings.HasPrefix(hv, "ghost:u:") {
			return !vars[hv]
		}
		return hv == "held" || hv == "rheld" || hv == ownHV || t.g.ann.immutableHV[hv]
	}
	reach := t.cur.reach
	defers := t.cur.defers
	if all {
		t.cur = t.h.child(t.h.havoc(t.cur, keepGhost))
	} else {
		t.cur = t.h.child(t.h.havoc(t.cur, func(hv string) bool {
			if keepGhost(hv) {
				return true
			}
			if hv == "alloc" || strings.HasPrefix(hv, "ghost:") {
				return false
			}
			return !vars[hv]
		}))
	}
	t.cur.reach = reach
	t.cur.defers = defers
	// alloc only grows
	prev := t.h.get(t.cur.parent.parent, "alloc")
	t.assume("(>= " + t.h.get(t.cur, "alloc") + " " + prev + ")")
}

func (t *fnTrans) backEdge(from, to *ssa.BasicBlock) {
	li := t.loops[to]
	save := t.cur
	t.cur = t.h.child(t.out[from])
	t.cur.reach = t.edgeTerm(from, to)
	// lock state must be the same as at loop head
	head := t.siteState[fmt.Sprintf("loop%d:head", li.ord)]
	t.oblige("lock.balance", fmt.Sprintf("loop%d:backedge", li.ord), from.Instrs[len(from.Instrs)-1].Pos(),
		and(eq(t.h.get(t.cur, "held"), t.h.get(head, "held")), eq(t.h.get(t.cur, "rheld"), t.h.get(head, "rheld"))), "loop iteration changes the set of held locks")
	vals := map[*ssa.Phi]string{}
	for _, in := range to.Instrs {
		phi, ok := in.(*ssa.Phi)
		if !ok {
			break
		}
		for k, bp := range to.Preds {
			if bp == from {
				vals[phi] = t.val(phi.Edges[k])
			}
		}
	}
	t.loopInvariants(li, "inv.preserve", vals, from.Instrs[len(from.Instrs)-1].Pos())
	if t.contract != nil {
		saveBlk := t.curBlock
		t.curBlock = from
		for k, sl := range t.contract.loopEnsures[li.ord] {
			e := t.selfCtx()
			if term, ok := t.evalBool(e, sl); ok {
				t.oblige("inv.iteration", fmt.Sprintf("loop%d:ensures%d@b%d", li.ord, k+1, from.Index), from.Instrs[len(from.Instrs)-1].Pos(), term, "at the end of every iteration: "+sl.text)
			}
		}
		t.curBlock = saveBlk
	}
	{
		all, vars := t.loopModSet(li)
		t.foreignLoop(false, from.Instrs[len(from.Instrs)-1].Pos(), fmt.Sprintf("loop%d:backedge", li.ord), all, vars)
	}
	t.ownBackEdgeHook(li)
	t.cur = save
}

// ---- sites ------------------------------------------------------------------------------

// assignSites gives every call/send/select/go/return a stable label
// "<kind>:<name>#<n>" with n counted in source order.
func (t *fnTrans) assignSites() {
	type ent struct {
		in   ssa.Instruction
		base string
		pos  token.Pos
		idx  int
		vp   vpos
		node *inlNode
	}
	var all []ent
	i := 0
	for _, node := range t.planNodes() {
	  node.sites = map[ssa.Instruction]string{}
	  for _, b := range node.fn.Blocks {
		for _, in := range b.Instrs {
			i++
			base := ""
			switch x := in.(type) {
			case *ssa.Call:
				base = "call:" + calleeName(x.Common())
			case *ssa.Defer:
				base = "call:" + calleeName(x.Common())
			case *ssa.Go:
				base = "go:" + calleeName(x.Common())
			case *ssa.Send:
				base = "send:" + t.staticChanName(x.Chan)
			case *ssa.Select:
				base = "select"
			case *ssa.Return:
				if node.call == nil {
					base = "return" // a helper's return is not a return of this function
				}
			case *ssa.MakeChan:
				base = "makechan"
			case *ssa.If:
				base = "if"
			}
			if base != "" {
				pos := in.Pos()
				if iff, ok := in.(*ssa.If); ok {
					pos = condPos(iff.Cond)
				}
				all = append(all, ent{in, base, pos, i, append(append(vpos{}, node.vp...), pos), node})
			}
		}
	  }
	}
	sort.SliceStable(all, func(a, b int) bool {
		// sites without a source position (compiler-made branches) go last
		va, vb := all[a].pos.IsValid(), all[b].pos.IsValid()
		if va != vb {
			return va
		}
		if len(all[a].vp) > 1 || len(all[b].vp) > 1 {
			if vposLess(all[a].vp, all[b].vp) != vposLess(all[b].vp, all[a].vp) {
				return vposLess(all[a].vp, all[b].vp)
			}
			return all[a].idx < all[b].idx
		}
		if all[a].pos != all[b].pos {
			return all[a].pos < all[b].pos
		}
		return all[a].idx < all[b].idx
	})
	cnt := map[string]int{}
	t.allSites = nil
	for _, e := range all {
		cnt[e.base]++
		label := fmt.Sprintf("%s#%d", e.base, cnt[e.base])
		e.node.sites[e.in] = label
		t.allSites = append(t.allSites, siteEnt{e.in, label, e.node})
	}
	t.sites = t.planNodes()[0].sites
}

func (t *fnTrans) staticChanName(v ssa.Value) string {
	switch x := v.(type) {
	case *ssa.UnOp:
		if fa, ok := x.X.(*ssa.FieldAddr); ok {
			pt := fa.X.Type().Underlying().(*types.Pointer)
			st := pt.Elem().Underlying().(*types.Struct)
			return st.Field(fa.Field).Name()
		}
	case *ssa.Phi:
		if x.Comment != "" {
			return x.Comment
		}
	}
	return "ch"
}

// finishNames makes obligation names unique with per-name ordinals in source order.
func (t *fnTrans) finishNames() {
	byName := map[string][]*Obligation{}
	for _, o := range t.c.obls {
		byName[o.Name] = append(byName[o.Name], o)
	}
	for name, os := range byName {
		if len(os) == 1 {
			continue
		}
		sort.SliceStable(os, func(i, j int) bool {
			if len(os[i].vkey) > 1 || len(os[j].vkey) > 1 {
				return vposLess(os[i].vkey, os[j].vkey)
			}
			return os[i].posv < os[j].posv
		})
		for i, o := range os {
			o.Name = fmt.Sprintf("%s#%d", name, i+1)
		}
	}
}

// ---- guard obligations ----------------------------------------------------------------------

func (t *fnTrans) privateCtx() bool {
	return t.contract != nil && t.contract.private
}

func (t *fnTrans) guardAccess(l *loc, write bool, pos token.Pos) {
	if l.enc != nil {
		// a field of a struct embedded by value in a guarded field is an access to that field
		t.guardAccess(l.enc, write, pos)
	}
	if l.kind != locField || l.owner == "" {
		if l.kind == locCell && l.owner != "" {
			// nested struct / array field as a whole
			t.guardField(l.owner, l.fname, l.ownerT, l.baseValTerm(t), l.baseVal, write, pos)
		}
		return
	}
	t.guardField(l.owner, l.fname, l.ownerT, l.base, l.baseVal, write, pos)
}

func (l *loc) baseValTerm(t *fnTrans) string {
	if l.baseVal != nil {
		return t.val(l.baseVal)
	}
	return l.base
}

func (t *fnTrans) guardField(owner, fname string, ownerT types.Type, base string, baseVal ssa.Value, write bool, pos token.Pos) {
	sa := t.g.ann.structs[owner]
	if sa == nil {
		return
	}
	fa := sa.fields[fname]
	newField := false
	if fa == nil {
		if fa = t.g.defaultFieldAnn(sa, fname); fa == nil {
			return
		}
		newField = true
	}
	if baseVal != nil && t.local[baseVal] {
		return
	}
	if t.privateCtx() || (t.fn.Name() == "init" && t.fn.Parent() == nil) {
		return // a package initializer builds its objects before anything else can see them
	}
	acc := "read"
	if write {
		acc = "write"
	}
	disc := acc + ":" + sa.name + "." + fname
	if write && fa.writer != "" && t.fn.Name() != fa.writer && !strings.HasPrefix(t.fn.Name(), fa.writer+"$") {
		t.oblige("guard.writer", disc, pos, "false", "field declared single_writer "+fa.writer+" is written elsewhere")
	}
	switch fa.kind {
	case "guarded":
		k, ok := t.lockKeyFrom(ownerT, base, fa.lock)
		if !ok {
			return
		}
		goal := sel(t.h.get(t.cur, "held"), k)
		if !write {
			goal = or(goal, sel(t.h.get(t.cur, "rheld"), k))
		}
		if strings.Contains(fa.lock, ".") {
			// the lock lives in another object: accept any held lock of that field type
			// (ownership assumption, DESIGN 2.4: such objects are reachable only from their owner)
			if lk, _ := t.g.resolveLockPath(ownerT, fa.lock); lk != "" {
				goal = or(goal, t.heldOfType(lk))
			}
		}
		note := "access to a field guarded by " + fa.lock + " without holding it"
		if newField {
			note = "field " + sa.name + "." + fname + " was added after the contracts were written and takes the discipline of its struct (guarded by " + fa.lock + "): accessed without that lock"
		}
		t.oblige("guard."+acc, disc, pos, goal, note)
	case "immutable":
		if write {
			note := "write to a field declared immutable after construction"
			if newField {
				note = "field " + sa.name + "." + fname + " was added after the contracts were written; its struct has no lock, so it may only be written while the object is under construction"
			}
			t.oblige("guard.immutable", disc, pos, "false", note)
		}
	case "atomic":
		t.oblige("guard.atomic", disc, pos, "false", "plain access to a field declared atomic")
	}
}

func (t *fnTrans) atomicAccess(l *loc, pos token.Pos) {
	// atomic access is always fine; a guarded field accessed atomically is not
	if l.kind != locField {
		return
	}
	sa := t.g.ann.structs[l.owner]
	if sa == nil {
		return
	}
	if fa := sa.fields[l.fname]; fa != nil && fa.kind == "guarded" {
		t.guardField(l.owner, l.fname, l.ownerT, l.base, l.baseVal, true, pos)
	}
}

// lockKeyFrom: ghost key of the lock at `path` relative to an object of type ownerT at base.
func (t *fnTrans) lockKeyFrom(ownerT types.Type, base, path string) (string, bool) {
	parts := strings.Split(path, ".")
	cur, curT := base, ownerT
	if parts[0] == "global" {
		// global.<var>.<field>
		return "", false
	}
	for i, p := range parts {
		T := deref(curT)
		st, ok := T.Underlying().(*types.Struct)
		if !ok {
			return "", false
		}
		fi := -1
		for j := 0; j < st.NumFields(); j++ {
			if st.Field(j).Name() == p {
				fi = j
			}
		}
		if fi < 0 {
			return "", false
		}
		if i == len(parts)-1 {
			return t.faddr(T, fi, cur), true
		}
		ft := st.Field(fi).Type()
		if _, nested := ft.Underlying().(*types.Struct); nested {
			cur = t.faddr(T, fi, cur)
			curT = types.NewPointer(ft)
			continue
		}
		hv, _, _ := t.fieldHV(T, fi)
		cur = sel(t.h.get(t.cur, hv), cur)
		curT = ft
	}
	return "", false
}

// guardMap: accesses to the contents of a map that lives in a guarded field.
func (t *fnTrans) guardMap(m ssa.Value, write bool, pos token.Pos) {
	u, ok := m.(*ssa.UnOp)
	if !ok || u.Op != token.MUL {
		return
	}
	fa, ok := u.X.(*ssa.FieldAddr)
	if !ok {
		return
	}
	pt := fa.X.Type().Underlying().(*types.Pointer)
	st := pt.Elem().Underlying().(*types.Struct)
	fname := st.Field(fa.Field).Name()
	owner := t.g.typeKey(pt.Elem())
	sa := t.g.ann.structs[owner]
	if sa == nil || sa.fields[fname] == nil || sa.fields[fname].kind != "guarded" {
		return
	}
	t.guardField(owner, fname+"[]", pt.Elem(), t.val(fa.X), fa.X, write, pos)
}

func (t *fnTrans) lockOrder(in ssa.Instruction, k, field, nm string) {
	lvl, ok := t.g.lockLevel(field)
	if !ok {
		return
	}
	t.orderGoal(in.Pos(), "order:"+nm, lvl)
}

func (g *Gen) lockLevel(field string) (int, bool) {
	i := strings.LastIndex(field, ".")
	if i < 0 {
		return 0, false
	}
	sa := g.ann.structs[field[:i]]
	if sa == nil {
		return 0, false
	}
	l, ok := sa.locks[field[i+1:]]
	if !ok || l == 0 {
		return 0, false
	}
	return l, true
}

// orderGoal: every lock currently held has a level strictly below lvl.
func (t *fnTrans) orderGoal(pos token.Pos, disc string, lvl int) {
	// level of a key through its field tag
	chain := "0"
	var keys []string
	for k := range t.g.fieldTags {
		keys = append(keys, k)
	}
	sort.Strings(keys)
	tagf := t.c.declareFun("ftag", []string{"Int"}, "Int")
	kq := q(t.c.fresh("k"))
	for _, fk := range keys {
		if l, ok := t.g.lockLevel(fk); ok {
			chain = fmt.Sprintf("(ite (= (%s %s) %d) %d %s)", tagf, kq, t.g.fieldTags[fk], l, chain)
		}
	}
	held := t.h.get(t.cur, "held")
	rheld := t.h.get(t.cur, "rheld")
	goal := fmt.Sprintf("(forall ((%s Int)) (=> (or (select %s %s) (select %s %s)) (< %s %d)))", kq, held, kq, rheld, kq, chain, lvl)
	t.oblige("lock.order", disc, pos, goal, "lock acquired out of order (possible deadlock)")
}

// lockCallCheck: a callee that may acquire locks must respect the order w.r.t. locks held here.
func (t *fnTrans) lockCallCheck(in ssa.Instruction, callee *ssa.Function, s *summary) {
	if len(s.locks) == 0 {
		return
	}
	min := 0
	which := ""
	for f := range s.locks {
		if l, ok := t.g.lockLevel(f); ok && (min == 0 || l < min) {
			min = l
			which = f
		}
	}
	if min == 0 {
		return
	}
	t.orderGoal(in.Pos(), "callorder:"+callee.Name()+"<"+which[strings.LastIndex(which, "/")+1:], min)
}

func (t *fnTrans) releaseEffects(in ssa.Instruction, mu ssa.Value, field, nm string) {
	if fa, ok := mu.(*ssa.FieldAddr); ok {
		t.monitorAssert(in, fa, field, nm)
	}
}

func (t *fnTrans) condLock(cv ssa.Value) (key, field string, mu ssa.Value, ok bool) {
	// cv is *sync.Cond loaded from a struct field annotated `cond f uses path`
	u, isU := cv.(*ssa.UnOp)
	if !isU {
		if fa, isFA := cv.(*ssa.FieldAddr); isFA {
			return t.condFromField(fa)
		}
		return "", "", nil, false
	}
	fa, isFA := u.X.(*ssa.FieldAddr)
	if !isFA {
		return "", "", nil, false
	}
	return t.condFromField(fa)
}

func (t *fnTrans) condFromField(fa *ssa.FieldAddr) (key, field string, mu ssa.Value, ok bool) {
	pt := fa.X.Type().Underlying().(*types.Pointer)
	st := pt.Elem().Underlying().(*types.Struct)
	owner := t.g.typeKey(pt.Elem())
	sa := t.g.ann.structs[owner]
	if sa == nil {
		return "", "", nil, false
	}
	path, has := sa.conds[st.Field(fa.Field).Name()]
	if !has {
		return "", "", nil, false
	}
	k, okk := t.lockKeyFrom(pt.Elem(), t.val(fa.X), path)
	if !okk {
		return "", "", nil, false
	}
	lk, _ := t.g.resolveLockPath(pt.Elem(), path)
	// owner of the lock: the object reached by the path without its last component
	t.condOwner = nil
	e := &evalCtx{t: t, fn: t.fn, st: t.cur, old: t.entry, binds: map[string]sval{"this": {term: t.val(fa.X), typ: fa.X.Type(), sort: "Int"}}}
	func() {
		defer func() { recover() }()
		expr := "this"
		if i := strings.LastIndex(path, "."); i >= 0 {
			expr = "this." + path[:i]
		}
		x, err := parseSpec(expr)
		if err == nil {
			v := e.eval(x)
			t.condOwner = &v
		}
	}()
	return k, lk, fa.X, true
}

// releaseEffectsKey / acquireEffectsKey: cond.Wait = Unlock; Lock on the cond's mutex.
func (t *fnTrans) releaseEffectsKey(in ssa.Instruction, base ssa.Value, field, nm string) {
	if t.condOwner != nil {
		t.assertInvariants(*t.condOwner, in.Pos(), "wait:"+nm)
	}
	t.monitorAssertField(in, field, nm)
}

func (t *fnTrans) acquireEffectsKey(base ssa.Value, field string) {
	for _, gf := range t.g.ann.guardedFields(field) {
		srt, known := t.h.sorts[gf.hv]
		if !known {
			srt = t.g.ann.sortOfGuarded(t, gf)
			if srt == "" {
				continue
			}
			t.h.reg(gf.hv, srt)
		}
		t.h.set(t.cur, gf.hv, t.c.declare(t.c.fresh(gf.hv), srt))
	}
	if t.condOwner != nil {
		t.assumeInvariants(*t.condOwner)
	}
	t.monitorAssumeField(field)
}

// ---- events (ghost log) -----------------------------------------------------------------------

func (t *fnTrans) event(kind, a, b string) { t.eventIf("true", kind, a, b) }

func (t *fnTrans) eventIf(cond, kind, a, b string) {
	hv := t.h.reg("ghost:"+kind, "(Array Int Bool)")
	cur := t.h.get(t.cur, hv)
	t.h.set(t.cur, hv, ite(cond, store(cur, a, "true"), cur))
	if b != "" && t.intSorted(b) {
		hv2 := t.h.reg("ghost:"+kind+".arg", "(Array Int Int)")
		c2 := t.h.get(t.cur, hv2)
		t.h.set(t.cur, hv2, ite(cond, store(c2, a, b), c2))
	}
	hv3 := t.h.reg("ghost:"+kind+".n", "Int")
	c3 := t.h.get(t.cur, hv3)
	t.h.set(t.cur, hv3, ite(cond, "(+ "+c3+" 1)", c3))
	if kind == "called" {
		// per-name count (called_since compares counts, so that an earlier call of the same
		// name does not hide a missing one)
		hv4 := t.h.reg("ghost:called.cnt", "(Array Int Int)")
		c4 := t.h.get(t.cur, hv4)
		t.h.set(t.cur, hv4, ite(cond, store(c4, a, "(+ "+sel(c4, a)+" 1)"), c4))
	}
}

func (t *fnTrans) intSorted(term string) bool {
	name := strings.Trim(term, "|")
	if d, ok := t.c.byName[name]; ok {
		return d.sort == "Int"
	}
	return false
}

func (t *fnTrans) ghostAlloc(size string, pos token.Pos) {
	hv := t.h.reg("ghost:allocbytes", "Int")
	t.h.set(t.cur, hv, "(+ "+t.h.get(t.cur, hv)+" "+size+")")
}

func (t *fnTrans) ghostAllocIf(cond, size string, pos token.Pos) {
	hv := t.h.reg("ghost:allocbytes", "Int")
	c := t.h.get(t.cur, hv)
	t.h.set(t.cur, hv, ite(cond, "(+ "+c+" "+size+")", c))
}

func (t *fnTrans) spawnHook(in ssa.Instruction, fnv ssa.Value, cc *ssa.CallCommon, how string) {
	t.ownSpawnHook(in, cc)
	name := ""
	switch f := fnv.(type) {
	case *ssa.Function:
		name = f.Name()
	case *ssa.MakeClosure:
		name = f.Fn.Name()
	}
	if cc != nil && cc.IsInvoke() {
		name = cc.Method.Name()
	}
	if name != "" {
		tag := nameTag("spawn:"+name)
		a := "0"
		if cc != nil && len(cc.Args) > 0 && t.sortOf(cc.Args[0].Type()) == "Int" {
			a = t.val(cc.Args[0])
		} else if cc != nil && cc.IsInvoke() {
			a = "0"
		}
		t.event("spawned", tag, a)
	}
}

func (t *fnTrans) resultFacts(callee *ssa.Function, cc *ssa.CallCommon, res ssa.Value, rs []string) {}


// closureFacts: relations between captured variables that were established in
// the enclosing function before the closure was made and cannot change:
// x := y.f with f immutable (or x, y both single-assignment captures).
func (t *fnTrans) closureFacts() {
	fn := t.fn
	if fn.Parent() == nil {
		return
	}
	allocOf := map[*ssa.Alloc]*ssa.FreeVar{}
	for _, fv := range fn.FreeVars {
		if a := t.g.captured(fn, fv); a != nil {
			allocOf[a] = fv
		}
	}
	for a, fv := range allocOf {
		if _, ok := t.stable[fv]; !ok {
			continue
		}
		// the single store to a
		var stored ssa.Value
		for _, r := range *a.Referrers() {
			if st, ok := r.(*ssa.Store); ok && st.Addr == a {
				stored = st.Val
			}
		}
		ld, ok := stored.(*ssa.UnOp)
		if !ok || ld.Op != token.MUL {
			continue
		}
		fa, ok := ld.X.(*ssa.FieldAddr)
		if !ok {
			continue
		}
		// base must be a load of another stable captured cell
		bl, ok := fa.X.(*ssa.UnOp)
		if !ok || bl.Op != token.MUL {
			continue
		}
		ba, ok := bl.X.(*ssa.Alloc)
		if !ok {
			continue
		}
		bfv, ok := allocOf[ba]
		if !ok {
			continue
		}
		bv, ok := t.stable[bfv]
		if !ok {
			continue
		}
		pt := fa.X.Type().Underlying().(*types.Pointer)
		st := pt.Elem().Underlying().(*types.Struct)
		owner := t.g.typeKey(pt.Elem())
		sa := t.g.ann.structs[owner]
		if sa == nil || sa.fields[st.Field(fa.Field).Name()] == nil || sa.fields[st.Field(fa.Field).Name()].kind != "immutable" {
			continue
		}
		hv, _, _ := t.fieldHV(pt.Elem(), fa.Field)
		t.assume(eq(t.stable[fv], sel(t.h.get(t.cur, hv), bv)))
	}
}


// heldOfType: some lock key of the given "Type.field" seen in this function is held.
func (t *fnTrans) heldOfType(field string) string {
	var ds []string
	seen := map[string]bool{}
	for _, lk := range t.lockKeys {
		if lk.field == field && !seen[lk.term] {
			seen[lk.term] = true
			ds = append(ds, sel(t.h.get(t.cur, "held"), lk.term))
		}
	}
	return or(ds...)
}


func condPos(v ssa.Value) token.Pos {
	if p := v.Pos(); p.IsValid() {
		return p
	}
	switch x := v.(type) {
	case *ssa.UnOp:
		return condPos(x.X)
	case *ssa.Extract:
		return x.Tuple.Pos()
	}
	return token.NoPos
}

// loopOverCheck: `loop N over E` -- the range loop iterates over exactly the collection E denotes when
// the loop is entered (a map: the operand of the range; a slice: the value the loop indexes with its
// range index).  Together with `loop N complete` this pins down *which* elements are visited.
func (t *fnTrans) loopOverCheck(b *ssa.BasicBlock, li *loopInfo) {
	if t.contract == nil || len(t.contract.loopOver[li.ord]) == 0 {
		return
	}
	var coll ssa.Value
	for _, in := range b.Instrs {
		if nx, ok := in.(*ssa.Next); ok {
			if rg, ok := nx.Iter.(*ssa.Range); ok {
				coll = rg.X
			}
		}
	}
	if coll == nil {
		// slice range: an element access indexed by a phi of the header
		phis := map[ssa.Value]bool{}
		for _, in := range b.Instrs {
			if phi, ok := in.(*ssa.Phi); ok {
				phis[phi] = true
			}
		}
		for blk := range li.blocks {
			for _, in := range blk.Instrs {
				switch x := in.(type) {
				case *ssa.IndexAddr:
					if bo, ok := x.Index.(*ssa.BinOp); ok && (phis[bo.X] || phis[bo.Y]) || phis[x.Index] {
						if coll == nil || x.X.Pos() < coll.Pos() {
							coll = x.X
						}
					}
				}
			}
		}
	}
	for k, sl := range t.contract.loopOver[li.ord] {
		pos := b.Instrs[0].Pos()
		if coll == nil {
			o := t.oblige("loop.over", fmt.Sprintf("loop%d:over%d:not-a-range", li.ord, k+1), pos, "false", "loop "+fmt.Sprint(li.ord)+" is not a range loop over a map or slice any more: "+sl.text)
			o.Trivial = false
			continue
		}
		if _, def := t.vals[coll]; !def {
			if _, isConst := coll.(*ssa.Const); !isConst {
				o := t.oblige("loop.over", fmt.Sprintf("loop%d:over%d:unknown-collection", li.ord, k+1), pos, "false", "cannot identify the collection loop "+fmt.Sprint(li.ord)+" ranges over: "+sl.text)
				o.Trivial = false
				continue
			}
		}
		e := t.selfCtx()
		v, ok := t.evalTerm(e, sl)
		if !ok {
			continue
		}
		t.oblige("loop.over", fmt.Sprintf("loop%d:over%d", li.ord, k+1), pos, eq(t.val(coll), v), "the loop must range over "+sl.text)
	}
}
