#!/usr/bin/env python3
"""Contracts for the thin layers every pattern has: the cooked wrappers' NewProtocol (wraps exactly the raw
protocol of its own pattern), the wrappers' GetOption fall-through, and every package's NewSocket (hands
exactly its own NewProtocol() to MakeSocket and reports no error).  Appends a generated block to each
package's contracts_verif.go (replacing an earlier generated block).  usage: gen_wrapper_contracts.py"""
import os, re
R='/repo/protocol'
WRAP={'pair':'xpair','pair1':'xpair1','pub':'xpub','pull':'xpull','push':'xpush','bus':'xbus','star':'xstar'}
BEGIN='// ---- generated wrapper contracts (tools/gen_wrapper_contracts.py) ----\n'
END='// ---- end generated wrapper contracts ----\n'
for pkg in sorted(os.listdir(R)):
    d=f'{R}/{pkg}'
    if not os.path.isdir(d) or not os.path.exists(f'{d}/{pkg}.go'): continue
    src=open(f'{d}/{pkg}.go').read()
    if 'func NewSocket()' not in src: continue
    out=BEGIN
    out+='//@ func NewSocket\n'
    out+='//@   ghost pr = result at call:NewProtocol#1\n'
    out+='//@   ghost so = result at call:MakeSocket#1\n'
    out+=f'//@   before call:NewProtocol#1 assert callee_is("protocol/{pkg}.NewProtocol")\n'
    out+='//@   before call:MakeSocket#1 assert arg0 == pr\n'
    out+='//@   ensures isnil(result1) && result0 == so\n'
    if pkg in WRAP:
        raw=WRAP[pkg]
        out+='//@\n//@ func NewProtocol\n'
        out+='//@   ghost inner = result at call:NewProtocol#1\n'
        out+=f'//@   before call:NewProtocol#1 assert callee_is("protocol/{raw}.NewProtocol")\n'
        out+='//@   ensures !isnil(result) && is_type(result, "*socket") && cast("*socket", result).Protocol == inner\n'
        if re.search(r'func \(s \*socket\) GetOption', src):
            out+='//@\n//@ func (*socket).GetOption\n'
            out+='//@   ghost v = result0 at call:GetOption#1\n'
            out+='//@   ghost e = result1 at call:GetOption#1\n'
            out+='//@   before call:GetOption#1 assert recv == s.Protocol && arg0 == name\n'
            out+='//@   ensures name != protocol.OptionRaw ==> result0 == v && result1 == e\n'
    out+=END
    cf=f'{d}/contracts_verif.go'
    if os.path.exists(cf):
        s=open(cf).read()
        s=re.sub(re.escape(BEGIN)+'.*?'+re.escape(END),'',s,flags=re.S).rstrip('\n')+'\n'
    else:
        s=f'//go:build verif\n\n// Contracts for package {pkg} (comment-only; read by /verif/govc).\n\npackage {pkg}\n'
    open(cf,'w').write(s+'\n'+out)
    print(pkg, 'wrapper' if pkg in WRAP else '')
