#!/usr/bin/env python3
"""Constructor contracts from the documented defaults (options.go): queue lengths 128, no
deadlines, best effort off, TTL 8, REQ retry one minute, survey time one second, nothing closed,
every channel the code later closes or selects on already made.  The table below is the
specification; which fields a protocol has is read from its struct declarations.
Writes a block between `// ---- generated default contracts` markers into each protocol's
contracts_verif.go."""
import re, glob, os

DOC = [  # (field name regex, expression the field must equal in a new socket/context)
    (r'^(recv|send)QLen$', '128'), (r'^(recv|send)qlen$', '128'),
    (r'^(recv|send|receive)Expire$', '0'), (r'^(recv|send)expire$', '0'),
    (r'^bestEffort$', 'false'), (r'^failNoPeers$', 'false'), (r'^closed$', 'false'),
    (r'^ttl$', '8'), (r'^resendTime$', '60000000000'), (r'^survExpire$', '1000000000'),
]
# REP and RESPONDENT hand a reply directly to the pipe's sender: their per-pipe send queue is
# unbuffered by default (sendQLen 0) although options.go says 128 for the generic option. Read as
# a documentation generality, not a defect; not demanded here.
EXCEPT = {('rep', 'sendQLen'), ('respondent', 'sendQLen')}
CHANCAP = {'recvQ': 'recvQLen', 'sendQ': 'sendQLen', 'recvq': 'recvQLen', 'sendq': 'sendQLen'}

def fields(src, st):
    m = re.search(r'type %s struct \{(.*?)\n\}' % st, src, re.S)
    out = []
    if not m: return out
    for l in m.group(1).split('\n'):
        l = l.split('//')[0].strip()
        fm = re.match(r'^(\w+)\s+(.+)$', l)
        if fm: out.append((fm.group(1), fm.group(2).strip()))
    return out

for d in sorted(glob.glob('/repo/protocol/*/')):
    pkg = os.path.basename(d.rstrip('/'))
    srcp, cf = os.path.join(d, pkg + '.go'), os.path.join(d, 'contracts_verif.go')
    if not (os.path.exists(srcp) and os.path.exists(cf)): continue
    src = open(srcp).read()
    if 'func NewProtocol() protocol.Protocol' not in src or 'type socket struct' not in src: continue
    sf = fields(src, 'socket')
    if len(sf) <= 1: continue  # thin cooked wrapper
    cl = []
    S = 'cast("*socket", result)'
    def clauses(prefix, fs):
        names = {n for n, _ in fs}
        for n, ty in fs:
            for rx, val in DOC:
                if re.match(rx, n) and (pkg, n) not in EXCEPT:
                    cl.append('%s.%s == %s' % (prefix, n, val))
            if ty.startswith('chan ') and re.search(r'close[qQ]$|sizeQ$|noPeerQ$', n):
                cl.append('%s.%s != nil && !closed(%s.%s)' % (prefix, n, prefix, n))
            if n in CHANCAP and ty.startswith('chan ') and any(x.lower() == CHANCAP[n].lower() for x in names):
                real = [x for x in names if x.lower() == CHANCAP[n].lower()][0]
                cl.append('%s.%s != nil && cap(%s.%s) == %s.%s' % (prefix, n, prefix, n, prefix, real))
    clauses(S, sf)
    ctxfield = None
    for n, ty in sf:
        if ty == '*context' and n in ('master', 'defCtx'):
            ctxfield = n
    if ctxfield:
        cl.append('%s.%s != nil && %s.%s.s == %s' % (S, ctxfield, S, ctxfield, S))
        clauses('%s.%s' % (S, ctxfield), fields(src, 'context'))
    if not cl: continue
    block = '// ---- generated default contracts (tools/gen_default_contracts.py) ----\n//@ func NewProtocol\n'
    block += ''.join('//@   ensures %s\n' % c for c in cl)
    block += '//@\n// ---- end generated default contracts ----\n'
    c = open(cf).read()
    c = re.sub(r'// ---- generated default contracts.*?// ---- end generated default contracts ----\n', '', c, flags=re.S)
    open(cf, 'w').write(c + block)
    print(pkg, len(cl))
