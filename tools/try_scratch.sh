#!/bin/bash
# usage: try_scratch.sh <seeded-id> <property>...   like try_mutant.sh, but on a scratch copy of /repo (under /tmp,
# removed afterwards), so /repo is never touched and several can run at once.
ID=$1; shift
export GOFLAGS=-mod=mod GOPROXY=off GOSUMDB=off GOTOOLCHAIN=local
W=/tmp/ts-$ID; rm -rf $W $W-out; mkdir -p $W $W-out
git -C /repo archive HEAD | tar -x -C $W   # the committed tree: /repo's working tree may be in use
P=/verif/seeded/$ID/patch.diff; [ -f /verif/seeded/$ID/patch.rebased.diff ] && P=/verif/seeded/$ID/patch.rebased.diff
(cd $W && patch -p1 -s < $P >/dev/null 2>&1) || { echo "== $ID: patch does not apply"; rm -rf $W $W-out; exit 2; }
for PR in "$@"; do
  /verif/bin/govc check -dir $W -out $W-out $PR > $W-out/log-$PR 2>&1; rc=$?
  echo "== $ID vs $PR: exit=$rc $(grep -c '^VIOLATION' $W-out/log-$PR) violations"
  grep -A1 '^VIOLATION' $W-out/log-$PR | grep obligation | cut -c1-220 | head -5
  grep -E "^(ANNOTATION-ERROR|TRANSLATION-ERROR|VACUITY|LOAD-ERROR)" $W-out/log-$PR | head -3
done
rm -rf $W $W-out
