#!/bin/bash
# usage: confirm_mutant.sh <worktree> <n> <dest-id>   e.g. /tmp/wt-C09 1 C09-1
# Confirms a seeded change: patch applies, touched packages' tests pass with it,
# demo fails with it and passes without it. Copies it to /verif/seeded/<dest-id>/.
set -u
export GOFLAGS=-mod=mod GOPROXY=off GOSUMDB=off GOTOOLCHAIN=local
WT=$1; N=$2; ID=$3
OUT=$WT/OUT/$N
LOG=/tmp/confirm-$ID.log
exec > $LOG 2>&1
cd $WT || exit 2
git checkout -q -- . ; git clean -fdq -e OUT
DEMODIR=$(python3 -c "import json;print(json.load(open('$OUT/meta.json'))['demo_dir'])")
DEMOCMD=$(python3 -c "import json;print(json.load(open('$OUT/meta.json'))['demo_cmd'])")
echo "demo_dir=$DEMODIR demo_cmd=$DEMOCMD"
cp $OUT/demo_test.go $DEMODIR/zz_demo_test.go
echo "== demo WITHOUT patch"
( cd $WT && timeout 300 bash -c "$DEMOCMD" ); R0=$?
git apply $OUT/patch.diff || { echo "PATCH DOES NOT APPLY"; exit 3; }
echo "== build"; go build ./... || { echo BUILDFAIL; exit 4; }
echo "== demo WITH patch"
( cd $WT && timeout 300 bash -c "$DEMOCMD" ); R1=$?
rm -f $DEMODIR/zz_demo_test.go
echo "== existing tests of touched packages WITH patch"
PKGS=$(git diff --name-only | xargs -n1 dirname | sort -u | sed 's|^|./|')
echo "touched: $PKGS"
go test -vet=off -count=1 $PKGS ./internal/test/ 2>&1 | grep -E "^(ok|FAIL|---)" | grep -v BroadcastIP ; 
SUITE=$(go test -vet=off -count=1 $PKGS 2>&1 | grep -E "^--- FAIL" | grep -v BroadcastIP | wc -l)
git checkout -q -- . ; git clean -fdq -e OUT
echo "RESULT id=$ID demo_without=$R0 demo_with=$R1 suite_new_failures=$SUITE"
if [ $R0 -eq 0 ] && [ $R1 -ne 0 ] && [ $SUITE -eq 0 ]; then
  mkdir -p /verif/seeded/$ID && cp $OUT/patch.diff $OUT/demo_test.go $OUT/meta.json /verif/seeded/$ID/ && echo CONFIRMED
else
  echo NOTCONFIRMED
fi
