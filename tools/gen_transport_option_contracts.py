#!/usr/bin/env python3
"""Option contracts of the tcp and tls+tcp endpoints (property C19) from the option
documentation: MaxRecvSize is an int, KeepAliveTime a duration, KeepAlive and NoDelay booleans
(legacy), TLSConfig a *tls.Config (tls+tcp only); anything else is a bad option, a value of the
wrong dynamic type a bad value, a rejected call changes nothing, Get returns what Set stored."""
import re
M = "mangos.Option"
def block(recv, typ, ka, tls, locked=True):
    names = ["MaxRecvSize", "KeepAliveTime", "KeepAlive", "NoDelay"] + (["TLSConfig"] if tls else [])
    L = ["//@ func (*%s).SetOption" % typ]
    L.append("//@   ensures %s ==> result == mangos.ErrBadOption" % " && ".join("n != %s%s" % (M, x) for x in names))
    L.append("//@   ensures !isnil(result) ==> result == mangos.ErrBadOption || result == mangos.ErrBadValue")
    L.append("//@   ensures n == %sMaxRecvSize ==> (isnil(result) <==> is_int(v))" % M)
    L.append("//@   ensures n == %sMaxRecvSize && isnil(result) ==> %s.maxRecvSize == int_of(v)" % (M, recv))
    L.append("//@   ensures n == %sKeepAliveTime ==> (isnil(result) <==> is_duration(v))" % M)
    L.append("//@   ensures n == %sKeepAliveTime && isnil(result) ==> %s.KeepAlive == int_of(v)" % (M, ka))
    L.append("//@   ensures n == %sKeepAlive ==> (isnil(result) <==> is_bool(v))" % M)
    L.append("//@   ensures n == %sKeepAlive && isnil(result) ==> (bool_of(v) <==> %s.KeepAlive >= 0)" % (M, ka))
    L.append("//@   ensures n == %sNoDelay ==> (isnil(result) <==> is_bool(v))" % M)
    if locked:
        L.append("//@   ensures !isnil(result) || n == %sNoDelay ==> unchanged(\"call:Lock#1\", %s.maxRecvSize, %s.KeepAlive)" % (M, recv, ka))
        L.append("//@   ensures n != %sMaxRecvSize ==> unchanged(\"call:Lock#1\", %s.maxRecvSize)" % (M, recv))
    else:
        # the lock is taken only on the accepting paths
        L.append("//@   ensures !isnil(result) || n == %sNoDelay ==> unchanged(%s.maxRecvSize, %s.KeepAlive)" % (M, recv, ka))
    L.append("//@")
    L.append("//@ func (*%s).GetOption" % typ)
    L.append("//@   ensures %s ==> result1 == mangos.ErrBadOption && isnil(result0)" % " && ".join("n != %s%s" % (M, x) for x in names))
    L.append("//@   ensures n == %sMaxRecvSize ==> isnil(result1) && result0 == iface(%s.maxRecvSize)" % (M, recv))
    L.append("//@   ensures n == %sKeepAliveTime ==> isnil(result1) && is_duration(result0) && int_of(result0) == %s.KeepAlive" % (M, ka))
    L.append("//@   ensures n == %sKeepAlive ==> isnil(result1) && result0 == iface(%s.KeepAlive >= 0)" % (M, ka))
    L.append("//@   ensures n == %sNoDelay ==> isnil(result1) && result0 == iface(true)" % M)
    L.append("//@")
    return "\n".join(L) + "\n"
for pkg, tls in (("tcp", False), ("tlstcp", True)):
    p = "/repo/transport/%s/contracts_verif.go" % pkg
    s = open(p).read()
    s = re.sub(r'// ---- generated transport option contracts.*?// ---- end generated transport option contracts ----\n', '', s, flags=re.S)
    s += "// ---- generated transport option contracts (tools/gen_transport_option_contracts.py) ----\n"
    s += block("d", "dialer", "d.d", tls, locked=not tls) + block("l", "listener", "l.lc", tls)
    s += "// ---- end generated transport option contracts ----\n"
    open(p, "w").write(s)
