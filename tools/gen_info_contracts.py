#!/usr/bin/env python3
"""Writes `Info()` contracts (protocol numbers and names from the SP RFCs, as literals, not the package
constants) into protocol/*/contracts_verif.go between markers."""
import re, os
R='/repo/protocol'
T={ 'pair':(0x10,0x10,'pair','pair'), 'pair1':(0x11,0x11,'pair1','pair1'), 'pub':(0x20,0x21,'pub','sub'), 'sub':(0x21,0x20,'sub','pub'),
    'req':(0x30,0x31,'req','rep'), 'rep':(0x31,0x30,'rep','req'), 'push':(0x50,0x51,'push','pull'), 'pull':(0x51,0x50,'pull','push'),
    'surveyor':(0x62,0x63,'surveyor','respondent'), 'respondent':(0x63,0x62,'respondent','surveyor'), 'bus':(0x70,0x70,'bus','bus'),
    'star':(0x640,0x640,'star','star') }
B='// ---- generated Info contracts (tools/gen_info_contracts.py) ----'
E='// ---- end generated Info contracts ----'
n=0
for pkg in sorted(os.listdir(R)):
    src=os.path.join(R,pkg,pkg+'.go'); cf=os.path.join(R,pkg,'contracts_verif.go')
    if not os.path.exists(src) or not os.path.exists(cf): continue
    s=open(src).read()
    m=re.search(r'func \((s )?\*socket\) Info\(\)', s)
    if not m: continue
    base=pkg[1:] if pkg.startswith('x') else pkg
    if base not in T: continue
    a,b,sn,pn=T[base]
    block=f'''{B}
//@ func (*socket).Info
//@   ensures result.Self == {a} && result.Peer == {b} && result.SelfName == "{sn}" && result.PeerName == "{pn}"
//@
{E}
'''
    c=open(cf).read()
    if B in c:
        c=c[:c.index(B)]+block+c[c.index(E)+len(E)+1:]
    else:
        c=c.rstrip('\n')+'\n'+block
    open(cf,'w').write(c); n+=1
print(n,'files')
