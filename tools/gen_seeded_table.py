#!/usr/bin/env python3
"""Rewrites the table at the end of DESIGN.md section 14 from seeded/CAUGHT_BY.tsv and the meta.json of each change."""
import json, os, re
V = '/verif'
rows = []
for line in open(f'{V}/seeded/CAUGHT_BY.tsv'):
    parts = line.rstrip('\n').split('\t')
    if len(parts) < 3:
        continue
    sid, prop, first = parts[0], parts[1], parts[2]
    try:
        m = json.load(open(f'{V}/seeded/{sid}/meta.json'))
        summ = m.get('summary') or m.get('description') or ''
    except Exception:
        summ = ''
    summ = ' '.join(str(summ).split()).replace('|', '/')
    if len(summ) > 170:
        summ = summ[:170] + '...'
    if os.path.exists(f'{V}/seeded/{sid}/patch.rebased.diff'):
        summ += ' (rebased onto the fix commits: patch.rebased.diff)'
    if os.path.exists(f'{V}/seeded/{sid}/NOTE.txt'):
        summ += ' (see NOTE.txt)'
    rows.append((sid, summ, first))
def key(r):
    a, b = r[0][1:].split('-')
    return (int(a), int(b))
rows.sort(key=key)
tab = '| change | what it does | first failing obligation |\n|--------|--------------|--------------------------|\n'
for sid, summ, first in rows:
    tab += f'| {sid} | {summ} | `{first}` |\n'
p = f'{V}/DESIGN.md'
s = open(p).read()
start = s.index('| change | what it does | first failing obligation |')
end = s.index('\nSub-agents also reported, unprompted')
s = s[:start] + tab + s[end:]
open(p, 'w').write(s)
print(len(rows), 'rows;', sum(1 for r in rows if r[2] == 'MISSED'), 'missed')
