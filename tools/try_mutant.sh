#!/bin/bash
# usage: try_mutant.sh <seeded-id> <property>...   applies /verif/seeded/<id>/patch.diff to /repo, runs the checks, reverts.
ID=$1; shift
cd /repo || exit 2
git diff --quiet || { echo "/repo has uncommitted changes"; exit 2; }
P=/verif/seeded/$ID/patch.diff; [ -f /verif/seeded/$ID/patch.rebased.diff ] && P=/verif/seeded/$ID/patch.rebased.diff; git apply $P || { echo "patch does not apply"; exit 2; }
for P in "$@"; do
  /verif/bin/govc check -out /tmp/try-$ID $P > /tmp/try-$ID-$P.log 2>&1; rc=$?
  echo "== $ID vs $P: exit=$rc $(grep -c '^VIOLATION' /tmp/try-$ID-$P.log) violations"
  grep -A1 '^VIOLATION' /tmp/try-$ID-$P.log | grep obligation | cut -c1-220 | head -5
  grep -E "^(ANNOTATION-ERROR|TRANSLATION-ERROR|VACUITY|LOAD-ERROR)" /tmp/try-$ID-$P.log | head -3
done
git checkout -- . 
rm -rf /tmp/try-$ID
