#!/usr/bin/env python3
"""Generates the C18 deadline / best-effort contracts of the raw protocol sockets
(mode -> wait channel at the blocking select, and timeout -> result mapping)."""
import re
# pkg: [(func, waitvar, timeout case index, kind, expire expression)]
T = {
 "xpair":       [("SendMsg","timeQ",1,"send","s.sendExpire"), ("RecvMsg","timeQ",1,"recv","s.recvExpire")],
 "xpair1":      [("SendMsg","timeQ",1,"send","s.sendExpire"), ("RecvMsg","timeQ",1,"recv","s.recvExpire")],
 "xreq":        [("SendMsg","timeQ",3,"send","s.sendExpire"), ("RecvMsg","timeQ",1,"recv","s.recvExpire")],
 "xrep":        [("SendMsg","tq",2,"send","s.sendExpire"),    ("RecvMsg","timeQ",1,"recv","s.recvExpire")],
 "xrespondent": [("SendMsg","tq",2,"send","s.sendExpire"),    ("RecvMsg","timeQ",1,"recv",'at("call:Unlock#1", s.recvExpire)')],
 "xbus":        [("RecvMsg","tq",2,"recv","s.recvExpire")],
 "xstar":       [("RecvMsg","tq",1,"recv","s.recvExpire")],
 "xsub":        [("RecvMsg","timeQ",1,"recv","s.recvExpire")],
 "xpull":       [("RecvMsg","tq",1,"recv","s.recvExpire")],
 "xsurveyor":   [("RecvMsg","timeQ",2,"recv","s.recvExpire")],
 "xpush":       [("SendMsg","tq",3,"send","s.sendExpire")],
}
BEGIN = "// ---- generated deadline contracts (tools/gen_deadline_contracts.py) ----"
END   = "// ---- end generated deadline contracts ----"
for pkg, fns in T.items():
    L = []
    for fn, v, k, kind, exp in fns:
        L.append("//@ func (*socket).%s" % fn)
        if kind == "send":
            L.append("//@   before select#1 assert s.bestEffort ==> %s == closedQ" % v)
            L.append("//@   before select#1 assert !s.bestEffort && %s > 0 ==> timer_d(%s) == %s" % (exp, v, exp))
            L.append("//@   before select#1 assert !s.bestEffort && %s <= 0 ==> %s == nilQ" % (exp, v))
            L.append('//@   ensures sel("select#1") == %d && !s.bestEffort ==> result == protocol.ErrSendTimeout' % k)
            L.append('//@   ensures sel("select#1") == %d && s.bestEffort ==> isnil(result)' % k)
        else:
            L.append("//@   before select#1 assert %s > 0 ==> timer_d(%s) == %s" % (exp, v, exp))
            if pkg not in ("xpull", "xsub"):   # there the wait channel is carried over a resize iteration
                L.append("//@   before select#1 assert %s <= 0 ==> %s == nilQ" % (exp, v))
            L.append('//@   ensures sel("select#1") == %d ==> result0 == nil && result1 == protocol.ErrRecvTimeout' % k)
        L.append("//@")
    path = "/repo/protocol/%s/contracts_verif.go" % pkg
    s = open(path).read()
    s = re.sub(re.escape(BEGIN) + r".*?" + re.escape(END) + r"\n", "", s, flags=re.S)
    if not s.endswith("\n"): s += "\n"
    s += BEGIN + "\n" + "\n".join(L) + "\n" + END + "\n"
    open(path, "w").write(s)
print("ok")
