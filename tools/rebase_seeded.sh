#!/bin/bash
# usage: rebase_seeded.sh <seeded-id>
# Re-creates a seeded change whose patch no longer applies to /repo's HEAD because a later fix: commit
# touched the same lines: the patch is applied with fuzz to a scratch copy (under /tmp, removed
# afterwards), the tree must build, the demonstration must still pass without the change and fail with
# it; then patch.rebased.diff is written next to the original patch.
ID=$1
export GOFLAGS=-mod=mod GOPROXY=off GOSUMDB=off GOTOOLCHAIN=local
S=/verif/seeded/$ID
W=/tmp/rb-$ID; rm -rf $W; mkdir -p $W
git -C /repo archive HEAD | tar -x -C $W
cd $W || exit 2
git init -q . >/dev/null 2>&1; git add -A >/dev/null 2>&1; git -c user.email=a@b -c user.name=x commit -qm base >/dev/null 2>&1
DEMODIR=$(python3 -c "import json;print(json.load(open('$S/meta.json'))['demo_dir'])")
DEMOCMD=$(python3 -c "import json;print(json.load(open('$S/meta.json'))['demo_cmd'])")
cp $S/demo_test.go $DEMODIR/zz_demo_test.go
timeout 300 bash -c "$DEMOCMD" >/dev/null 2>&1; R0=$?
rm -f $DEMODIR/zz_demo_test.go
if ! patch -p1 -s -F3 --no-backup-if-mismatch < $S/patch.diff >/dev/null 2>&1; then echo "$ID: does not apply even with fuzz"; cd /; rm -rf $W; exit 1; fi
find . -name '*.orig' -o -name '*.rej' | xargs rm -f
if ! go build ./... 2>/dev/null; then echo "$ID: applied with fuzz but does not build"; cd /; rm -rf $W; exit 1; fi
git diff > /tmp/rb-$ID.diff
cp $S/demo_test.go $DEMODIR/zz_demo_test.go
timeout 300 bash -c "$DEMOCMD" >/dev/null 2>&1; R1=$?
rm -f $DEMODIR/zz_demo_test.go
if [ $R0 -eq 0 ] && [ $R1 -ne 0 ]; then
  cp /tmp/rb-$ID.diff $S/patch.rebased.diff
  echo "re-created on $(git -C /repo log --format=%h -1) with tools/rebase_seeded.sh (patch applied with fuzz; demonstration passes without the change and fails with it)" >> $S/NOTE.txt
  echo "$ID: rebased (demo without=$R0 with=$R1)"
else
  echo "$ID: applies and builds, but the demonstration no longer separates (without=$R0 with=$R1)"
fi
rm -f /tmp/rb-$ID.diff; cd /; rm -rf $W
