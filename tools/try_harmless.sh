#!/bin/bash
# usage: try_harmless.sh <patch> : applies a behaviour-preserving patch to /repo, runs every check whose
# selectors touch a package the patch edits, reverts. Any VIOLATION / non-zero exit is a false alarm.
P=$1
cd /repo || exit 2
git diff --quiet || { echo "/repo has uncommitted changes"; exit 2; }
git apply $P || { echo "patch does not apply: $P"; exit 2; }
PKGS=$(git diff --name-only | xargs -n1 dirname | sort -u)
PROPS=""
for pk in $PKGS; do
  key=$(echo $pk | sed 's|^\./||'); [ "$key" = "." ] && key="mangos"
  PROPS="$PROPS $(grep -E "\(\*?$key\.|^ *[0-9]+ instrs.* $key\." /tmp/coverage.txt | awk '{print $NF}' | tr ',' '\n' | grep '^C[0-9][0-9]$')"
done
PROPS=$(echo $PROPS | tr ' ' '\n' | sort -u)
rc=0
for p in $PROPS; do
  ( /verif/bin/govc check -out /tmp/harm-$$ $p > /tmp/harm-$$-$p.log 2>&1; echo "$p exit=$? $(grep -c '^VIOLATION' /tmp/harm-$$-$p.log) violations $(grep -c '^RENAMED' /tmp/harm-$$-$p.log) renames" ) &
  while [ $(jobs -r | wc -l) -ge 5 ]; do sleep 0.5; done
done
wait
for p in $PROPS; do grep -A1 '^VIOLATION\|^VACUITY\|^ANNOTATION\|^TRANSLATION' /tmp/harm-$$-$p.log | grep -v '^--' | cut -c1-260 | head -6; done
git checkout -- .
rm -rf /tmp/harm-$$ /tmp/harm-$$-*.log
