#!/bin/bash
# Must-not-alarm corpus: behaviour-preserving edits written by sub-agents (renames, reordered
# independent statements, if/else inversions, extracted helpers).  Those marked `ok` in
# selftest/harmless/INDEX.tsv must leave every affected check at exit 0; those marked `alarm` are the
# documented limits of the approach (DESIGN 13.2e) and are only reported.
# Needs /tmp/coverage.txt (bin/govc coverage > /tmp/coverage.txt) and a clean /repo.
cd /verif
fail=0
while IFS=$'\t' read -r id exp kind why; do
  out=$(tools/try_harmless.sh /verif/selftest/harmless/$id.diff 2>&1)
  bad=$(echo "$out" | grep -c "exit=[12]")
  if [ "$exp" = ok ] && [ $bad -gt 0 ]; then echo "HARMLESS $id ($kind): FALSE ALARM"; echo "$out" | grep obligation | head -3; fail=1
  elif [ "$exp" = ok ]; then echo "HARMLESS $id ($kind): quiet"
  else echo "HARMLESS $id ($kind): known limit, alarms=$bad"; fi
done < selftest/harmless/INDEX.tsv
exit $fail
