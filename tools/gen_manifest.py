#!/usr/bin/env python3
"""Generates /verif/MANIFEST.json from the table below (kept in one place so that
claimed / not-applicable stay consistent with props/props.json)."""
import json, subprocess

ENV = "GOFLAGS=-mod=mod GOPROXY=off GOSUMDB=off GOTOOLCHAIN=local"
TECH = "contract-based deductive verification: VCs generated from go/ssa of /repo (govc), contracts in contracts_verif.go, discharged by z3/cvc5"

claimed = {
 "C01": dict(design="8 C01", text="Proof: stream framing against an explicit ghost model of the byte stream: conn/connipc Send hand WriteTo exactly [be64(len(H)+len(B)) (IPC: 0x01 first), H, B]; Recv decodes the length from exactly the next 8 stream bytes, rejects negative/oversize before allocating, returns a body of exactly that many following stream bytes and consumes exactly 8(+1)+len; limit equal to size is accepted; WebSocket/inproc Send deliver header||body as one payload into a fresh buffer; the API Send/Recv copy the bytes; Dup/MakeUnique preserve contents; big-endian round-trip lemma.",
             note="net.Buffers.WriteTo / io.ReadFull / binary.Read / websocket contracts and NewMessage (sync.Pool) are trusted; concurrent writers on one connection and kernel/TLS internals are outside."),
 "C13": dict(design="8 C13", text="Proof (partial): the id allocator returns a non-zero 31-bit id that was not in use and records it; addPipe calls the protocol's AddPipe only with the pipe lock held, not closing, not yet added; on refusal or close-during-Attaching the pipe is not marked added, the lock is released and (refusal) close is scheduled; Attached and dialer notification only after added; Close runs remPipe iff added, under the pipe lock, and notifies the dialer iff there is one; only addPipe writes `added`.",
             note="A pipe that never got attached releases its id and list entry in Close (defect F7 found and fixed); accessor/option contracts of Pipe are not yet stated."),
 "C15": dict(design="8 C15", text="Proof: the handshake writes 00 'S' 'P' 00 <proto big-endian> 00 00 and returns nil only if the eight bytes it read are 00 'S' 'P' 00 <expected peer> 00 00 (so every single-byte deviation is refused), consuming exactly eight bytes, and never reports the listener-closed error for a peer failure; message frames as in C01 (length covers header+body, IPC prefix 0x01).",
             note="binary.Write field order/endianness trusted. WebSocket: the dialer offers exactly <peer>.sp.nanomsg.org, the listener registers exactly <self>.sp.nanomsg.org and upgrades only when the client offered it, frames are binary; gorilla/websocket itself is trusted."),
 "C16": dict(design="8 C16", text="Proof: no index/slice/makeslice panic in any protocol receiver, in transport Recv or the handshake for any received bytes (unbounded symbolic input); oversize or negative length => ErrTooLong with no allocation and no further read; the limit is compared before NewMessage is called.",
             note="Scheduling/fairness clauses outside. The configured receive limit reaches every new connection: tcp/tls/ipc dialers and listeners pass exactly their maxRecvSize to the conn, ws sets the read limit to it, and NewDialer/NewListener hand the socket's limit to the endpoint unless the caller supplied one."),
 "C18": dict(design="8 C18", text="Proof (partial): at every blocking API select of the raw sockets and the REP/RESPONDENT contexts the wait channel is the always-ready channel for best effort, time.After(exactly the configured deadline) for a positive deadline, and the nil channel otherwise; the timeout case maps to the timeout error (or silent drop for best effort); REQ timers are armed with exactly the configured values and only when positive; fail-no-peers: PUSH checks before blocking and waits on the no-peers signal, which RemovePipe closes under the lock when the last pipe leaves; REQ cancels exactly the contexts that asked for fail-no-peers; REP Recv clears its waiting flag on every exit.",
             note="Timer library contract trusted; liveness/fairness clauses outside."),
 "C19": dict(design="8 C19", text="Proof: for every option name (arbitrary string) and every dynamic value (any type tag, any payload) each protocol socket/context SetOption returns bad-option for names outside its table, bad-value for a wrong type or out-of-range value with the state unchanged, and otherwise stores exactly the value; GetOption returns the stored field or bad-option; no make(chan, n<0) or failed type assertion; core SetOption falls through protocol -> socket with the same three-way contract and ignores endpoint answers; unsupported operations return the designated error and modify nothing; Device validates before spawning forwarders; receivers never leave their loop on a queue resize (one known finding: XBUS). Three defects found and fixed.",
             note="The option table (tools/gen_option_contracts.py) is the specification. New contexts (REQ, REP, SUB, SURVEYOR, RESPONDENT) start from the socket's current settings; new dialers/listeners inherit the receive limit and the reconnect settings; per-pipe send queues are created with exactly WriteQLen; an unsubscribe keeps the configured queue depth. Resize paths never double-close their notification channel (close permissions)."),
 "C02": dict(design="8 C02", text="Proof (partial): PAIR admits a peer only when it has none, a refused pipe leaves the peer untouched and spawns nothing, RemovePipe evicts the peer only if it is the pipe being removed (so removing a refused pipe cannot disturb the conversation); core never marks a refused pipe added; PUSH: a queued message always wakes the scheduler (Signal on every successful enqueue), the scheduler hands each dequeued message to exactly one ready pipe under the lock, a pipe is re-queued only after its SendMsg succeeded and while open, ownership of every message is affine along these paths; the send queue must have capacity >= 1 for the scheduler to see it (one known finding: WriteQLen 0).",
             note="Delivery multiset/order across goroutines and liveness are outside."),
 "C10": dict(design="8 C10", text="Proof (partial): every raw socket Close returns the closed error and changes nothing when already closed, otherwise sets the flag and closes the close channel; the handshaker closes a connection whose handshake completed after Close, and queues no live connection after Close; REQ cancelSend removes exactly the cancelled context from the send queue (order and all other entries preserved); pipe Close notifies the protocol iff it was added and the dialer iff there is one; dialer Close stops the redial timer and marks it closed; every RecvMsg that reports success returns a message.",
             note="Also proved: no double close of any close/resize channel in protocols and transports (close permissions, DESIGN 13.2a); conn.Close releases the connection whatever the handshake state (defect F15 found and fixed); a pipe that was never attached releases its id (F7 fixed); an inproc listener removes only its own address registration. Goroutine/timer leaks in general, promptness and wake-on-close completeness are outside."),
 "C14": dict(design="8 C14", text="Proof (partial): a closed dialer returns before the transport dial; a failed attempt without redial schedules nothing; with redial the timer is armed with exactly the current delay, the next delay never exceeds the configured maximum and is unchanged when no maximum is set; the delay is reset to the minimum on Dial and on a successful attach; pipe loss re-arms with the current delay; success arms no timer; a protocol refusal still closes the pipe so that the dialer is told.",
             note="Floats as reals; real-time spacing and persistence are outside."),
 "C20": dict(design="8 C20", text="Proof: printMsg, modelling the buffered writer as a token log: raw writes exactly the body; ascii writes each byte itself iff it is printable ASCII (0x20..0x7E) and '.' otherwise, then one newline; quoted writes per byte the escape for \\n \\r \\\\ \\\" , the byte itself if printable, a \\xHH escape otherwise (lemma: the tokens decode back to the byte and the first character determines the token length); msgpack writes bin8/bin16/bin32 by length class with a big-endian length equal to the body length (all lengths, incl. 255/256/65535/65536), then the body; the send loops send exactly sendData, count times; an explicit --count is not overridden by --send-interval. One defect found and fixed (Latin-1 bytes in ascii mode).",
             note="bufio.Writer token model and strconv.IsPrint table (evaluated from the real library at run time) are assumptions; optopia parsing and Run's validation are outside."),
 "C03": dict(design="8 C03", text="Proof (partial): the REQ receiver matches replies on the exact 32-bit id read from the message (no normalisation), only against the id->context map, forgets the id on the first match and stores the reply in that context only; short replies are dropped; cancel forgets the outstanding id and clears request/reply; every access to REQ state happens under the socket lock.",
             note="The full cross-call monitor invariant (I1-I5 of DESIGN) is not yet proved; id freshness assumed. A Recv canceled by a newer Send leaves the new request's state alone (defect F14 found, replayed and fixed)."),
 "C04": dict(design="8 C04", text="Proof (partial): each transmission hands exactly the retained request (pointer-equal, one extra reference) to one pipe and records it as lastPipe; the retry timer is armed with exactly the retry time and only when it is positive; the timer callback uses the id captured when it was armed; pipe loss re-queues via resendMessage when retries are enabled and cancels otherwise; resendMessage acts only if the id is current, the request retained and not already queued.",
             note="Real-time and liveness clauses are outside. At most one retry timer is armed per context: the pending one is stopped before a new one is armed (defect F8 found and fixed)."),
 "C05": dict(design="8 C05", text="Proof: REP/RESPONDENT RecvMsg stores a private copy (different array, equal bytes) of the request header and the originating pipe in the context; SendMsg sends only on that pipe's queue with exactly that header, clears the state, and returns the protocol-state error when nothing is pending; a fresh RESPONDENT context starts with nothing pending; raw XREP/XRESPONDENT route by the first header word to exactly that pipe, strip it, drop unknown/short, restore the header on timeout.",
             note="Device-chain composition is a meta-argument over these per-hop contracts."),
 "C06": dict(design="8 C06", text="Proof: matches(m) <=> some subscription is a prefix of the body (loop invariant, unbounded); the SUB receiver enqueues to a context iff it matches; after unsubscribe a queued message is kept iff it still matches; RecvMsg returns an owned, unshared message; the PUB loop offers every message to every pipe (no early exit).",
             note="bytes.HasPrefix contract trusted; channel FIFO trusted."),
 "C07": dict(design="8 C07", text="Proof: the SURVEYOR receiver routes a response only to the survey registered under the exact id in the message, under the socket lock; cancel unregisters the survey before closing its queue; a new survey gets an id with the top bit set and a 4-byte header carrying it; every pipe is offered each survey; Recv without a current survey returns the protocol-state error before blocking; the expiry timer is armed with exactly the survey time and only when it is positive (defect found and fixed).",
             note="Real-time clauses outside."),
 "C08": dict(design="8 C08", text="Proof: raw BUS SendMsg offers the message to every pipe (no early exit) except exactly the one whose id is in the 4-byte header, and clears that header; the raw BUS receiver stamps the arrival pipe id and leaves the body untouched; cooked BUS/STAR wrappers set/strip headers; STAR SendMsg drops header-less messages and otherwise offers to all pipes; what STAR hands to the application is an unshared copy. One known finding (queue resize closes the BUS pipe).",
             note="Topology-level induction is not machine-checked."),
 "C09": dict(design="8 C09", text="Proof: deliver-site / drop-site assertions and loop invariants on the hop-counting receiver are discharged for every TTL 1..255, every word count and every byte value (no bound). Under contract: REP, XREP, RESPONDENT, XRESPONDENT (word-count receivers), XPAIR1 and XSTAR (hop-byte receivers).",
             note="Trusts the generator, solvers, append/slice model, interface contract of ProtocolPipe.RecvMsg; struct invariant 1<=ttl<=255 is proved at every Unlock of the package."),
 "C11": dict(design="8 C11", text="Proof (partial): for every field annotated guarded_by/immutable/atomic in the contract files, every access in every function of core, transports and protocols is proved to happen with the lock held (data-race freedom for declared fields); lock order levels and no blocking operation under a lock. 27 genuine unsynchronised accesses of the pinned tree were found by this check and repaired in six fix: commits.",
             note="Foreign-guarded fields (guarded by a lock in another object) are checked against any held lock of that type (ownership assumption); fields marked racy are outside; linearizability and scheduler-dependent deadlocks are outside."),
 "C17": dict(design="8 C17", text="Proof: affine ownership of *Message checked on every path of every function in core, transports and protocols: no use, release, channel send, goroutine hand-off or store of a message the code does not own; Send-like methods leave the message with the caller (own>=1, Body unchanged) on every error return; Recv-like methods return an owned message; loop iterations do not consume references they did not acquire. Interface Send contracts are proved for every implementation (subtype obligations).",
             note="NewMessage's contract is trusted (sync.Pool); values loaded from structures are borrowed (double release through two loads of one field is not seen); dropping a message without Free is allowed; the REQ body-intact-on-error clause and REQ Recv uniqueness are not claimed (listed in evidence); SURVEYOR Send with a shared message was a defect (fixed)."),
 "C12": dict(design="8 C12", text="Proof: on every path of every function in core, transports and protocols each mutex is released exactly once before return (path-sensitive, defer-aware), never re-locked while held, never unlocked while free, cond.Wait only with its lock. Two defects found by this check were repaired (fix: commits).",
             note="Lock identity is the address term of the mutex field; calls to functions without a `holds/acquires/releases` contract are assumed lock-neutral (which is exactly what this sweep proves for each of them)."),
}

props = [json.loads(l) for l in open('/verif/properties.jsonl')]
checks = []
for p in props:
    pid = p['id']
    if pid not in claimed: continue
    c = claimed[pid]
    checks.append({
      "property_id": pid,
      "quick_cmd": f"/verif/bin/govc check -tier quick {pid}",
      "thorough_cmd": f"/verif/bin/govc check -tier thorough {pid}",
      "evidence_file": f"/verif/evidence/{pid}.json",
      "replay_cmd_template": "/verif/bin/govc replay {path}",
      "engine": "govc",
      "level_claimed": {"category": "proof", "text": c['text'], "design_ref": c['design']},
      "level_note": c['note'],
      "technique": TECH,
    })
na = [{"property_id": p['id'], "reason": "check not built yet (engine exists; contracts for this property are under construction, see DESIGN.md section 8)"} for p in props if p['id'] not in claimed]
hooks_commits = subprocess.run(["git","-C","/repo","log","--format=%h %s"],capture_output=True,text=True).stdout.strip().split("\n")
m = {
 "version": 1,
 "setup_cmd": f"cd /verif/govc && {ENV} go build -o /verif/bin/govc .",
 "hooks": {
   "guard": "verif",
   "enable": "govc loads /repo with -tags=verif; the only guarded files are comment-only contracts_verif.go (no executable hooks)",
   "baseline_off_cmd": f"cd /repo && {ENV} go test -json -vet=off -count=1 -timeout 25m ./...",
   "source_commits": [c.split()[0] for c in hooks_commits if c.split(' ',1)[1].startswith('verif:')],
   "add_only": True
 },
 "engines": [{"name":"govc","path":"/verif/govc","serves_properties":sorted(claimed),"kind_free_text":"verification-condition generator over go/ssa + SMT (z3 4.8.12, z3 5.1.0, cvc5 1.0); contracts as //@ comments in contracts_verif.go"}],
 "checks": checks,
 "notes": "Known findings: /verif/known_findings.txt. Fix commits in /repo start with 'fix:'. See DESIGN.md. Thorough tier = quick tier with 60 s solver budgets + independent re-solve of every discharged obligation by the other installed solvers (disagreement breaks the check) + adequacy: every seeded change / re-introduced defect recorded for the property is applied to a scratch copy of the tree (never /repo) and must be reported.",
 "not_applicable": na,
}
json.dump(m, open('/verif/MANIFEST.json','w'), indent=1)
print("claimed", sorted(claimed), "na", len(na))
