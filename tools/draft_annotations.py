#!/usr/bin/env python3
"""One-off helper that drafted the struct annotations of the protocol packages
(contracts_verif.go).  The committed contract files are maintained by hand
afterwards; this script is kept for the record only and never run by a check."""
import re, os, sys

RAW = "xpair xpair1 xreq xrep xpub xsub xpush xpull xsurveyor xrespondent xbus xstar".split()
IMM_SOCK = {"closeQ", "closeq", "cv", "master", "defCtx"}

def structs(path):
    out = {}
    cur = None
    for line in open(path):
        m = re.match(r'^type (\w+) struct', line)
        if m:
            cur = m.group(1); out[cur] = []; continue
        if cur and line.startswith('}'):
            cur = None; continue
        if cur:
            l = re.sub(r'//.*', '', line).strip()
            if not l: continue
            parts = l.split()
            if len(parts) == 1:
                out[cur].append(parts[0].split('.')[-1])   # embedded
            else:
                out[cur].append(parts[0])
    return out

def emit(pkg, path):
    st = structs(path)
    lines = ["//go:build verif", "", "// Contracts for package %s (comment-only; read by /verif/govc)." % pkg, "", "package %s" % pkg, ""]
    for name, fields in st.items():
        if name == "socket" and "Mutex" in fields:
            g = [f for f in fields if f not in IMM_SOCK and f != "Mutex" and f != "nextID"]
            imm = [f for f in fields if f in IMM_SOCK]
            lines.append("//@ struct socket")
            lines.append("//@   lock Mutex level 20")
            lines.append("//@   guarded_by Mutex: " + " ".join(g))
            if imm: lines.append("//@   immutable: " + " ".join(imm))
            if "nextID" in fields: lines.append("//@   atomic: nextID")
            lines.append("//@")
        elif name == "pipe":
            imm = [f for f in fields if f in ("p","s","closeQ","sendQ","closeq","sendq")]
            g = [f for f in fields if f == "closed"]
            lines.append("//@ struct pipe")
            lines.append("//@   immutable: " + " ".join(imm))
            if g: lines.append("//@   guarded_by s.Mutex: closed")
            lines.append("//@")
        elif name == "context" and "s" in fields:
            imm = [f for f in fields if f in ("s","closeQ","cond")]
            g = [f for f in fields if f not in imm]
            lines.append("//@ struct context")
            lines.append("//@   guarded_by s.Mutex: " + " ".join(g))
            lines.append("//@   immutable: " + " ".join(imm))
            lines.append("//@")
    return "\n".join(lines) + "\n"

for pkg in sys.argv[1:]:
    path = "/repo/protocol/%s/%s.go" % (pkg, pkg)
    dst = "/repo/protocol/%s/contracts_verif.go" % pkg
    if os.path.exists(dst):
        print("skip", dst); continue
    open(dst, "w").write(emit(pkg, path))
    print("wrote", dst)
