#!/bin/bash
# Must-fail corpus: every repaired defect is re-introduced (reverse of its fix: commit) and the
# check of its property must exit 1 with a VIOLATION line. Run after every engine change.
# usage: tools/selftest.sh            (requires a clean /repo working tree)
cd /repo || exit 2
git diff --quiet || { echo "/repo has uncommitted changes"; exit 2; }
fail=0
while IFS=$'\t' read -r name prop commit st; do
  git apply /verif/selftest/reintroduced/$name.diff || { echo "SELFTEST $name: diff does not apply"; fail=1; continue; }
  /verif/bin/govc check -out /tmp/selftest-$name $prop > /tmp/selftest-$name.log 2>&1; rc=$?
  git checkout -- .
  n=$(grep -c '^VIOLATION' /tmp/selftest-$name.log)
  conf=$(grep -l '"replay_confirmed": *"\?[Tt]rue' /tmp/selftest-$name/out/replay/$prop/*.json 2>/dev/null | wc -l)
  first=$(grep -m1 -A1 '^VIOLATION' /tmp/selftest-$name.log | grep obligation | sed 's/^ *obligation \([^ ]*\) .*/\1/')
  if [ $rc -eq 1 ] && [ $n -ge 1 ]; then echo "SELFTEST $name ($prop, $commit): caught, $n violation(s), replay-confirmed=$conf, first=$first"; else echo "SELFTEST $name ($prop): NOT CAUGHT rc=$rc"; fail=1; fi
  rm -rf /tmp/selftest-$name /tmp/selftest-$name.log
done < <(sort /verif/selftest/reintroduced/INDEX.tsv)
exit $fail
