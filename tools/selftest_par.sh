#!/bin/bash
# Parallel form of selftest.sh: every re-introduced defect is applied to its own scratch copy of /repo's
# HEAD (under /tmp, removed afterwards) and the check of its property must report a VIOLATION there.
# /repo is never touched. usage: selftest_par.sh [jobs]
J=${1:-6}
export GOFLAGS=-mod=mod GOPROXY=off GOSUMDB=off GOTOOLCHAIN=local
one() {
  name=$1; prop=$2; commit=$3
  W=/tmp/st-$name; rm -rf $W $W-out; mkdir -p $W $W-out
  git -C /repo archive HEAD | tar -x -C $W
  if ! (cd $W && patch -p1 -s < /verif/selftest/reintroduced/$name.diff >/dev/null 2>&1); then echo "SELFTEST $name: diff does not apply"; rm -rf $W $W-out; return; fi
  /verif/bin/govc check -dir $W -out $W-out $prop > $W-out/log 2>&1; rc=$?
  n=$(grep -c '^VIOLATION' $W-out/log)
  nf=$(grep -c 'no-failing-input-found' $W-out/log)
  first=$(grep -m1 -A1 '^VIOLATION' $W-out/log | grep obligation | sed 's/^ *obligation \([^ ]*\) .*/\1/')
  if [ $rc -eq 1 ] && [ $n -ge 1 ]; then echo "SELFTEST $name ($prop, $commit): caught, $n violation(s), $((n-nf)) with a replayed input, first=$first"; else echo "SELFTEST $name ($prop): NOT CAUGHT rc=$rc"; fi
  rm -rf $W $W-out
}
export -f one
sort /verif/selftest/reintroduced/INDEX.tsv | awk -F'\t' '{print $1, $2, $3}' | xargs -P $J -L1 bash -c 'one $0 $1 $2'
