#!/bin/bash
# Runs the pinned baseline suite on /repo (guard off) and reports stable tests that no longer pass.
export GOFLAGS=-mod=mod GOPROXY=off GOSUMDB=off GOTOOLCHAIN=local
cd /repo && go test -mod=mod -json -vet=off -count=1 -timeout 25m ./... > /tmp/baseline.json 2>/tmp/baseline.err
python3 - <<'PY'
import json
base=json.load(open('/root/.vp/BASELINE.json'))
stable=set(base['stable_pass'])
res={}
for l in open('/tmp/baseline.json'):
    try: d=json.loads(l)
    except: continue
    if d.get('Test') and d.get('Action') in('pass','fail','skip'):
        res[d['Package']+'::'+d['Test']]=d['Action']
bad=[t for t in stable if res.get(t)!='pass']
print("stable=%d passed=%d notpassed=%d"%(len(stable),len(stable)-len(bad),len(bad)))
for t in sorted(bad)[:40]: print("  NOT PASSED",t,res.get(t))
PY
