#!/bin/bash
# Must-not-alarm corpus on scratch copies (like harmless.sh, but /repo is never touched and several
# patches run at once).  For every patch: the committed tree is extracted to /tmp, the patch applied,
# and two checks are run with `-dir`: the broadest and the narrowest property anchored in a touched file
# (with the generated anchor-file selectors every functional obligation of a touched function is selected
# by each of them, so these two decide quiet / alarm).  usage: harmless_scratch.sh [jobs]
J=${1:-3}
cd /verif
export GOFLAGS=-mod=mod GOPROXY=off GOSUMDB=off GOTOOLCHAIN=local
one() {
  id=$1; exp=$2; kind=$3
  W=/tmp/hs-$id; rm -rf $W $W-out; mkdir -p $W $W-out
  git -C /repo archive HEAD | tar -x -C $W
  (cd $W && patch -p1 -s < /verif/selftest/harmless/$id.diff >/dev/null 2>&1) || { echo "HARMLESS $id ($kind): patch does not apply"; rm -rf $W $W-out; return; }
  files=$(grep -h '^+++ b/' /verif/selftest/harmless/$id.diff | sed 's|^+++ b/||')
  props=$(python3 - "$files" <<'PY'
import json,sys
files=sys.argv[1].split()
A={}
for l in open('/verif/properties.jsonl'):
    d=json.loads(l); A[d['id']]=set(d['anchors']['files'])
c=[p for p in A if any(f in A[p] for f in files)]
c.sort(key=lambda p: len(A[p]))
print(' '.join(dict.fromkeys([c[0], c[-1]])) if c else 'C11')
PY
)
  bad=0; first=""
  for p in $props; do
    /verif/bin/govc check -dir $W -out $W-out $p > $W-out/log-$p 2>&1; rc=$?
    if [ $rc -ne 0 ]; then bad=$((bad+1)); [ -z "$first" ] && first=$(grep -m1 -A1 '^VIOLATION\|^VACUITY\|^ANNOTATION\|^TRANSLATION' $W-out/log-$p | tail -1 | cut -c1-200); fi
  done
  if [ "$exp" = ok ] && [ $bad -gt 0 ]; then echo "HARMLESS $id ($kind): FALSE ALARM [$props] $first"
  elif [ "$exp" = ok ]; then echo "HARMLESS $id ($kind): quiet [$props]"
  else echo "HARMLESS $id ($kind): known limit, alarms=$bad [$props]"; fi
  rm -rf $W $W-out
}
export -f one
cut -f1-3 selftest/harmless/INDEX.tsv | tr '\t' '|' | xargs -P $J -I{} bash -c 'IFS="|" read a b c <<< "{}"; one "$a" "$b" "$c"' | sort
