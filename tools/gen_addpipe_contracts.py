#!/usr/bin/env python3
"""AddPipe contracts for every protocol: a closed socket refuses the pipe (ErrClosed) and starts
nothing; otherwise the pipe's private data is set, it is registered where the protocol keeps its
pipes, and exactly the goroutines the protocol needs are started.  Which of these a protocol has
is read from its AddPipe body (so the contract pins down what is there today: removing the
registration, a goroutine or the closed test fails an obligation)."""
import re, glob, os
for d in sorted(glob.glob('/repo/protocol/*/')):
    pkg = os.path.basename(d.rstrip('/'))
    srcp, cf = os.path.join(d, pkg + '.go'), os.path.join(d, 'contracts_verif.go')
    if not (os.path.exists(srcp) and os.path.exists(cf)): continue
    src = open(srcp).read()
    m = re.search(r'func \(s \*socket\) AddPipe\(pp protocol\.Pipe\) error \{(.*?)\n\}', src, re.S)
    if not m: continue
    body = m.group(1)
    L = ['//@ func (*socket).AddPipe']
    if 's.closed' in body:
        L.append('//@   ghost wasClosed = s.closed at call:Lock#1')
        L.append('//@   ensures wasClosed ==> result == protocol.ErrClosed && !spawned("receiver") && !spawned("sender")')
        ok = '!wasClosed'
    else:
        ok = 'true'
    post = []
    if re.search(r'go p\.receiver\(\)', body): post.append('spawned("receiver")')
    if re.search(r'go p\.sender\(\)', body): post.append('spawned("sender")')
    if pkg in ('xpair', 'xpair1'):
        pass  # peer slot: contracts written by hand (refusal of a second peer)
    if re.search(r's\.pipes\[pp\.ID\(\)\] = p', body) or re.search(r's\.pipes\[p\.p\.ID\(\)\] = p', body):
        post.append('has(s.pipes, pp.ID())')
    if post and pkg not in ('xpair', 'xpair1'):
        L.append('//@   ensures %s && isnil(result) ==> %s' % (ok, ' && '.join(post)))
        L.append('//@   ensures %s ==> isnil(result)' % ok)
    # every pipe gets queues and a close channel of its own
    mq = re.search(r'(\w+):\s+make\(chan \*protocol\.Message, s\.sendQLen\)', body) or re.search(r'(\w+):\s+make\(chan \*protocol\.Message, 1\)', body)
    mc = re.search(r'(close[qQ]):\s+make\(chan struct\{\}\)', body)
    fr = []
    if mq: fr.append('fresh(p.%s)' % mq.group(1))
    if mc: fr.append('fresh(p.%s)' % mc.group(1))
    if fr:
        site = 'go:sender#1' if re.search(r'go p\.sender\(\)', body) else ('go:receiver#1' if re.search(r'go p\.receiver\(\)', body) else None)
        if site:
            L.append('//@   before %s assert %s' % (site, ' && '.join(fr)))
    if 'pp.SetPrivate(p)' in body:
        L.append('//@   before call:SetPrivate#1 assert p.p == pp && p.s == s')
    if len(L) == 1: continue
    block = '// ---- generated AddPipe contracts (tools/gen_addpipe_contracts.py) ----\n' + '\n'.join(L) + '\n//@\n// ---- end generated AddPipe contracts ----\n'
    c = open(cf).read()
    c = re.sub(r'// ---- generated AddPipe contracts.*?// ---- end generated AddPipe contracts ----\n', '', c, flags=re.S)
    open(cf, 'w').write(c + block)
    print(pkg, len(L) - 1)
