#!/bin/bash
# usage: all_checks.sh [jobs]   runs the 20 quick checks on /repo's working tree, prints one line each
J=${1:-4}
export GOFLAGS=-mod=mod GOPROXY=off GOSUMDB=off GOTOOLCHAIN=local
cd /verif
seq -w 1 20 | xargs -P $J -I{} bash -c 'bin/govc check C{} > /tmp/chk-C{}.log 2>&1; echo "C{} exit=$? $(tail -1 /tmp/chk-C{}.log | cut -c1-200)"' | sort
grep -h '^VIOLATION\|^KNOWN-FINDING\|ERROR\|VACUITY' /tmp/chk-C*.log | sort | uniq -c
