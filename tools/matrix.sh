#!/bin/bash
# Runs every seeded change against the check of the property it was written for.
# Rewrites seeded/CAUGHT_BY.tsv: <seeded id> <property> <first violated obligation | MISSED>
cd /verif
: > /tmp/caught.tsv
for d in seeded/*/; do
  id=$(basename $d); prop=${id%-*}
  out=$(/verif/tools/try_mutant.sh $id $prop 2>&1)
  echo "$out" | grep "^== "
  first=$(echo "$out" | grep -m1 "obligation " | sed 's/^ *obligation \([^ ]*\) .*/\1/')
  n=$(echo "$out" | grep -m1 "^== " | sed 's/.* \([0-9]*\) violations/\1/')
  [ -z "$first" ] && first=MISSED
  printf "%s\t%s\t%s\t%s\n" $id $prop "$first" "$n" >> /tmp/caught.tsv
done
cp /tmp/caught.tsv seeded/CAUGHT_BY.tsv; rm -f /tmp/caught.tsv
grep -c MISSED seeded/CAUGHT_BY.tsv
