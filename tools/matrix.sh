#!/bin/bash
# Runs every seeded change against the check of the property it was written for
# (and, optionally, extra properties given as arguments). Output: one line per pair.
cd /verif
for d in seeded/*/; do
  id=$(basename $d); prop=${id%-*}
  /verif/tools/try_mutant.sh $id $prop "$@" 2>&1 | grep "^== "
done
