#!/usr/bin/env python3
"""Generates the option contracts (property C19) of the raw protocol sockets and
cooked contexts from the table below and appends them to the packages'
contracts_verif.go (between markers, so that it can be re-run).

The table is the *specification*: which option names each object supports, the
dynamic type an accepted value must have and the accepted range, taken from the
documentation of the options (queue lengths >= 0, TTL 1..255, durations and
booleans unrestricted) -- not from the conditions in the code.  A setter that
accepts less or more than the table says fails its `post` obligation."""
import re, sys

INT_QLEN  = ("int", "0 <= int_of({v})")
INT_TTL   = ("int", "1 <= int_of({v}) && int_of({v}) <= 255")
DUR       = ("duration", "true")
BOOL      = ("bool", "true")
O = lambda n: "protocol.Option" + n

# package -> list of (receiver type, recv var, set-name-param, set-value-param, get-name-param, raw flag or None, {option: (field, kind)})
RAWOPTS = {
 "xbus":        dict(RecvDeadline=("recvExpire",DUR), WriteQLen=("sendQLen",INT_QLEN), ReadQLen=("recvQLen",INT_QLEN)),
 "xpair":       dict(BestEffort=("bestEffort",BOOL), RecvDeadline=("recvExpire",DUR), SendDeadline=("sendExpire",DUR), ReadQLen=("recvQLen",INT_QLEN), WriteQLen=("sendQLen",INT_QLEN)),
 "xpair1":      dict(BestEffort=("bestEffort",BOOL), RecvDeadline=("recvExpire",DUR), SendDeadline=("sendExpire",DUR), ReadQLen=("recvQLen",INT_QLEN), WriteQLen=("sendQLen",INT_QLEN), TTL=("ttl",INT_TTL)),
 "xpub":        dict(WriteQLen=("sendQLen",INT_QLEN)),
 "xpull":       dict(RecvDeadline=("recvExpire",DUR), ReadQLen=("recvQLen",INT_QLEN)),
 "xpush":       dict(SendDeadline=("sendExpire",DUR), BestEffort=("bestEffort",BOOL), FailNoPeers=("failNoPeers",BOOL), WriteQLen=("sendQLen",INT_QLEN)),
 "xrep":        dict(TTL=("ttl",INT_TTL), RecvDeadline=("recvExpire",DUR), SendDeadline=("sendExpire",DUR), BestEffort=("bestEffort",BOOL), WriteQLen=("sendQLen",INT_QLEN), ReadQLen=("recvQLen",INT_QLEN)),
 "xreq":        dict(RecvDeadline=("recvExpire",DUR), SendDeadline=("sendExpire",DUR), BestEffort=("bestEffort",BOOL), WriteQLen=("sendQLen",INT_QLEN), ReadQLen=("recvQLen",INT_QLEN)),
 "xrespondent": dict(TTL=("ttl",INT_TTL), RecvDeadline=("recvExpire",DUR), SendDeadline=("sendExpire",DUR), BestEffort=("bestEffort",BOOL), WriteQLen=("sendQLen",INT_QLEN), ReadQLen=("recvQLen",INT_QLEN)),
 "xstar":       dict(TTL=("ttl",INT_TTL), RecvDeadline=("recvExpire",DUR), WriteQLen=("sendQLen",INT_QLEN), ReadQLen=("recvQLen",INT_QLEN)),
 "xsub":        dict(RecvDeadline=("recvExpire",DUR), ReadQLen=("recvQLen",INT_QLEN)),
 "xsurveyor":   dict(RecvDeadline=("recvExpire",DUR), WriteQLen=("sendQLen",INT_QLEN), ReadQLen=("recvQLen",INT_QLEN)),
}
# cooked contexts: (type, recv, set name, set value, get name, options)
COOKED = {
 "rep":        [("context","c","name","v","name", dict(BestEffort=("bestEffort",BOOL), SendDeadline=("sendExpire",DUR), RecvDeadline=("recvExpire",DUR)))],
 "respondent": [("context","c","name","v","name", dict(BestEffort=("bestEffort",BOOL), SendDeadline=("sendExpire",DUR), RecvDeadline=("recvExpire",DUR)))],
 "req":        [("context","c","name","value","option", dict(RetryTime=("resendTime",DUR), RecvDeadline=("receiveExpire",DUR), SendDeadline=("sendExpire",DUR), BestEffort=("bestEffort",BOOL), FailNoPeers=("failNoPeers",BOOL)))],
 "surveyor":   [("context","c","name","value","option", dict(SurveyTime=("survExpire",DUR), RecvDeadline=("recvExpire",DUR), ReadQLen=("recvQLen",INT_QLEN))),
                ("socket","s","option","value","option", dict(WriteQLen=("sendQLen",INT_QLEN)))],
 "sub":        [("context","c","name","value","name", dict(ReadQLen=("recvQLen",INT_QLEN), RecvDeadline=("recvExpire",DUR)))],
}
COOKED["rep"].append(("socket","s","name","v","name", dict(WriteQLen=("sendQLen",INT_QLEN), TTL=("ttl",INT_TTL))))
COOKED["respondent"].append(("socket","s","name","v","name", dict(WriteQLen=("sendQLen",INT_QLEN), ReadQLen=("recvQLen",INT_QLEN), TTL=("ttl",INT_TTL))))

def accept(kind, v):
    ty, rng = kind
    is_ = {"int":"is_int","duration":"is_duration","bool":"is_bool"}[ty]
    a = "%s(%s)" % (is_, v)
    r = rng.format(v=v)
    return a if r == "true" else "%s && %s" % (a, r)

def val(kind, v):
    return "bool_of(%s)" % v if kind[0] == "bool" else "int_of(%s)" % v

# undocumented names the code accepts on purpose (test facilities); excluded from the unknown-option clause
EXTRA = {"xpull.socket": ['"_resizeDiscards"'], "sub.context": ["protocol.OptionSubscribe", "protocol.OptionUnsubscribe"]}
# objects that forward names they do not own to another object: no unknown-option clause for them
DELEGATES = {"rep.socket", "respondent.socket", "surveyor.socket"}

def block(typ, recv, sn, sv, gn, opts, raw, typ_pkg=""):
    L = []
    L.append("//@ func (*%s).SetOption" % typ)
    names = " && ".join(["%s != %s" % (sn, O(o)) for o in opts] + ['%s != %s' % (sn, x) for x in EXTRA.get(typ_pkg, [])])
    if typ_pkg not in DELEGATES:
        L.append("//@   ensures %s ==> result == protocol.ErrBadOption" % names)
    for o,(f,k) in opts.items():
        L.append("//@   ensures %s == %s ==> (isnil(result) <==> %s)" % (sn, O(o), accept(k, sv)))
        L.append("//@   ensures %s == %s && !isnil(result) ==> result == protocol.ErrBadValue" % (sn, O(o)))
        L.append("//@   ensures %s == %s && isnil(result) ==> %s.%s == %s" % (sn, O(o), recv, f, val(k, sv)))
    fields = sorted(set(f for f,_ in opts.values()))
    if typ_pkg not in DELEGATES:
        own = " || ".join("%s == %s" % (sn, O(o)) for o in opts)
        L.append("//@   ensures !isnil(result) && (%s) ==> unchanged(%s)" % (own, ", ".join("%s.%s" % (recv,f) for f in fields)))
    L.append("//@")
    L.append("//@ func (*%s).GetOption" % typ)
    gnames = [O(o) for o in opts] + ([O("Raw")] if raw is not None else [])
    if typ_pkg not in DELEGATES:
        L.append("//@   ensures %s ==> result1 == protocol.ErrBadOption && isnil(result0)" % " && ".join("%s != %s" % (gn, n) for n in gnames))
    for o,(f,k) in opts.items():
        L.append("//@   ensures %s == %s ==> isnil(result1) && result0 == iface(%s.%s)" % (gn, O(o), recv, f))
    if raw is not None:
        L.append("//@   ensures %s == %s ==> isnil(result1) && result0 == iface(%s)" % (gn, O("Raw"), "true" if raw else "false"))
    L.append("//@")
    return L

BEGIN = "// ---- generated option contracts (tools/gen_option_contracts.py) ----"
END   = "// ---- end generated option contracts ----"
def write(pkg, lines):
    path = "/repo/protocol/%s/contracts_verif.go" % pkg
    s = open(path).read()
    s = re.sub(re.escape(BEGIN) + r".*?" + re.escape(END) + r"\n", "", s, flags=re.S)
    if not s.endswith("\n"): s += "\n"
    s += BEGIN + "\n" + "\n".join(lines) + "\n" + END + "\n"
    open(path, "w").write(s)

for pkg, opts in RAWOPTS.items():
    write(pkg, block("socket", "s", "name", "value", "option", opts, True, pkg + ".socket"))
for pkg, lst in COOKED.items():
    lines = []
    for (typ, recv, sn, sv, gn, opts) in lst:
        lines += block(typ, recv, sn, sv, gn, opts, None, pkg + "." + typ)
    write(pkg, lines)
print("ok")
