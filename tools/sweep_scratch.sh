#!/bin/bash
# usage: sweep_scratch.sh <seeded-id>   whole-tree sweep of a seeded change on a scratch copy; prints the obligations
# that fail with the change and do not fail on HEAD (whatever property claims them).  /repo is not touched.
ID=$1
export GOFLAGS=-mod=mod GOPROXY=off GOSUMDB=off GOTOOLCHAIN=local
W=/tmp/sw-$ID; rm -rf $W; mkdir -p $W
git -C /repo archive HEAD | tar -x -C $W
if [ "$ID" != BASE ]; then
  P=/verif/seeded/$ID/patch.diff; [ -f /verif/seeded/$ID/patch.rebased.diff ] && P=/verif/seeded/$ID/patch.rebased.diff
  (cd $W && patch -p1 -s < $P >/dev/null 2>&1) || { echo "== $ID: patch does not apply"; rm -rf $W; exit 2; }
fi
/verif/bin/govc sweep -dir $W 2>&1 | grep -E '^(FAIL|ANNOTATION-ERROR|TRANSLATION-ERROR|LOAD-ERROR)' | awk '{print $1,$2,$3}' | sort > /tmp/sw-$ID.fail
rm -rf $W
[ "$ID" = BASE ] && exit 0
echo "== $ID: new failing obligations"; comm -13 /tmp/sw-BASE.fail /tmp/sw-$ID.fail | cut -c1-200 | head -12
