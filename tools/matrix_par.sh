#!/bin/bash
# Parallel version of matrix.sh: every seeded change is applied to its own scratch copy of /repo
# (under /tmp, removed afterwards) and checked with `govc check -dir`. Rewrites seeded/CAUGHT_BY.tsv.
# usage: matrix_par.sh [jobs] [id-regex]   (default 4 jobs, all ids; with a regex only those rows are replaced)
J=${1:-4}
F=${2:-.}
cd /verif
export GOFLAGS=-mod=mod GOPROXY=off GOSUMDB=off GOTOOLCHAIN=local
one() {
  id=$1; prop=${id%-*}
  W=/tmp/mx-$id; rm -rf $W $W-out; mkdir -p $W-out
  rsync -a /tmp/mx-snap/ $W/
  P=/verif/seeded/$id/patch.diff; [ -f /verif/seeded/$id/patch.rebased.diff ] && P=/verif/seeded/$id/patch.rebased.diff
  if ! (cd $W && patch -p1 -s < $P >/dev/null 2>&1); then printf "%s\t%s\t%s\t%s\n" $id $prop PATCH-FAILED 0; rm -rf $W $W-out; return; fi
  /verif/bin/govc check -dir $W -out $W-out $prop > $W-out/log 2>&1
  n=$(grep -c '^VIOLATION' $W-out/log)
  first=$(grep -A1 "^VIOLATION" $W-out/log | grep -m1 "^ *obligation " | sed 's/^ *obligation \([^ ]*\) .*/\1/')
  [ -z "$first" ] && first=MISSED
  grep -qE "^(ANNOTATION-ERROR|TRANSLATION-ERROR|LOAD-ERROR)" $W-out/log && [ "$first" = MISSED ] && first="BROKEN:$(grep -m1 -E '^(ANNOTATION-ERROR|TRANSLATION-ERROR|LOAD-ERROR)' $W-out/log | cut -c1-80)"
  printf "%s\t%s\t%s\t%s\n" $id $prop "$first" "$n"
  rm -rf $W $W-out
}
export -f one
rm -rf /tmp/mx-snap; rsync -a --exclude .git /repo/ /tmp/mx-snap/   # one consistent snapshot; /repo may be used meanwhile
ls seeded | grep -E '^C[0-9]+-[0-9]+$' | grep -E "$F" | xargs -P $J -I{} bash -c 'one {}' > /tmp/caught.par.tsv
rm -rf /tmp/mx-snap
if [ "$F" != . ]; then cut -f1 /tmp/caught.par.tsv > /tmp/caught.ids; grep -v -w -F -f /tmp/caught.ids seeded/CAUGHT_BY.tsv >> /tmp/caught.par.tsv; fi
sort -V /tmp/caught.par.tsv > seeded/CAUGHT_BY.tsv; rm -f /tmp/caught.par.tsv /tmp/caught.ids
echo "missed: $(grep -c MISSED seeded/CAUGHT_BY.tsv)  broken: $(grep -c 'BROKEN\|PATCH-FAILED' seeded/CAUGHT_BY.tsv)  total: $(wc -l < seeded/CAUGHT_BY.tsv)"
