#!/usr/bin/env python3
"""Adds to every property a generated selector covering all functional obligations of the functions defined in the
files the property is anchored in (properties.jsonl: anchors.files), so that an obligation that exists and fails is
reported under every property whose code it belongs to.  usage: gen_anchor_selectors.py [props-in] [props-out]"""
import json, re, subprocess, sys, os
V='/verif'
src = sys.argv[1] if len(sys.argv) > 1 else f'{V}/props/props.json'
dst = sys.argv[2] if len(sys.argv) > 2 else src
govc = f'{V}/bin/govc.new' if os.path.exists(f'{V}/bin/govc.new') else f'{V}/bin/govc'
out = subprocess.run([govc, 'funcs'], capture_output=True, text=True, env=dict(os.environ, GOFLAGS='-mod=mod', GOPROXY='off', GOSUMDB='off', GOTOOLCHAIN='local')).stdout
byfile = {}
for line in out.splitlines():
    if '\t' not in line: continue
    k, f = line.split('\t')
    if f.endswith('_test.go'): continue
    byfile.setdefault(f, []).append(k)
anchors = {}
for l in open(f'{V}/properties.jsonl'):
    d = json.loads(l); anchors[d['id']] = d.get('anchors', {}).get('files', [])
KINDS = ["safe.nil","site","post","pre","monitor","inv.entry","inv.preserve","inv.iteration","loop.complete","loop.over","guard.writer","own.release","own.handoff","own.use","own.store","lock.block","frame",
         # a property stated for all schedules depends on the race- and deadlock-freedom of the code it is anchored in (round 11)
         "guard.read","guard.write","guard.immutable","guard.atomic","lock.order","lock.relock","lock.balance","lock.unheld","lock.condwait"]
# obligations that fail on the pinned tree and are dealt with under one property (known finding or not claimed there)
ELSEWHERE = [
 (r'^monitor:\(\*protocol/xpush\.socket\)\.SetOption:unlock:s\.Mutex:socket\.inv1#4$', 'C02', 'recorded as a known finding under C02 (PUSH accepts WriteQLen 0); not reported a second time here'),
 (r'^lock\.block:\(\*protocol/sub\.context\)\.(unsubscribe:block:send:c\.recvQ|SetOption:block:call:unsubscribe)$', 'C11', 'non-blocking only by a count argument over channel contents, which the channel model cannot express (listed with this reason under C11)'),
 (r'^lock\.block:\(\*protocol/xpush\.socket\)\.sender:block:recv:s\.sendQ$', 'C11', 'receive under the lock guarded by len(sendQ) != 0: needs channel-content reasoning (listed with this reason under C11)'),
 (r'^post:\(\*protocol/xrep\.socket\)\.SendMsg:post5@return#5$', 'C05,C09', 'recorded as a known finding under C05 and C09 (raw REP Send reports the socket closed when only the destination connection has gone); not reported a second time here'),
 (r'^site:\(\*protocol/xbus\.pipe\)\.receiver:at:call:Close#1:1$', 'C08,C19', 'recorded as a known finding under C08 and C19 (raw BUS receiver leaves its loop on a queue resize); not reported a second time here'),
]
SUBSTRATE = re.compile(r'^(message\.go|device\.go|protocol\.go|pipe\.go|options\.go|internal/core/[a-z]+\.go|transport/[a-z_]+\.go|transport/(tcp|ipc|tlstcp|ws|wss|inproc)/[a-z_]+\.go|protocol/protocol\.go)$')
NO_SUBSTRATE = set()  # round 13: macat prints and sends over the same transports (C20-25, C20-26 were made there)
ALL_PATTERNS = {'C01'}
props = json.load(open(src))
for pr in props:
    pid = pr['id']
    pr['select'] = [s for s in pr['select'] if s.get('generated') != 'anchor-files']
    pr['not_claimed'] = [n for n in pr.get('not_claimed', []) if n.get('generated') != 'anchor-files']
    # a cooked wrapper and the raw protocol it wraps are one mechanism: anchoring one anchors the other (round 13)
    files = list(anchors.get(pid, []))
    for f in list(files):
        m = re.match(r'^protocol/(x?)([a-z0-9]+)/\1\2\.go$', f)
        if m:
            twin = f'protocol/{m.group(2)}/{m.group(2)}.go' if m.group(1) else f'protocol/x{m.group(2)}/x{m.group(2)}.go'
            if twin in byfile and twin not in files:
                files.append(twin)
    keys = sorted({k for f in files for k in byfile.get(f, [])})
    if not keys: continue
    if pid not in NO_SUBSTRATE:
        # every property but macat's is stated end to end (what the peer application receives, what a later call
        # returns): it depends on the whole substrate the patterns run on, so a failing functional obligation of
        # the root package, internal/core or a transport is reported under it as well (DESIGN decision 32)
        keys = sorted(set(keys) | {k for f, ks in byfile.items() if SUBSTRATE.match(f) for k in ks})
    if pid in ALL_PATTERNS:
        # stated "for every messaging pattern in cooked and raw mode": the pattern code is part of the path
        keys = sorted(set(keys) | {k for f, ks in byfile.items() if re.match(r'^protocol/[a-z0-9]+/[a-z0-9]+\.go$', f) for k in ks})
    rx = '^(?:' + '|'.join(re.escape(k) for k in keys) + ')$'
    pr['select'].append({"func": rx, "kinds": KINDS, "generated": "anchor-files"})
    pr['select'].append({"func": rx, "kinds": ["own.exit"], "name": "error-keeps", "generated": "anchor-files"})
    for pat, owners, why in ELSEWHERE:
        if pid in owners.split(','): continue
        pr['not_claimed'].append({"pattern": pat, "reason": why, "generated": "anchor-files"})
json.dump(props, open(dst, 'w'), indent=1)
print('ok', sum(len(s['func']) for p in props for s in p['select'] if s.get('generated')), 'regex chars')
