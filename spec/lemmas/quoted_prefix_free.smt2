; Lemma for C20 (quoted format): the per-byte tokens emitted by macat's quoted format decode back to the byte.
; Token of byte b (as a sequence of characters t0 t1 t2 t3 and its length n):
;   10 -> '\' 'n' ; 13 -> '\' 'r' ; 92 -> '\' '\' ; 34 -> '\' '"' ; printable other -> b ; otherwise '\' 'x' hi lo
; A decoder reading the first character c0: if c0 != '\' the byte is c0 (length 1); else the second character
; selects n/r/\/" (length 2) or x (length 4, value 16*hex(hi)+hex(lo)).  We prove decode(token(b)) = b for all b in 0..255,
; i.e. the first character of a token determines its length (prefix-freeness) and the value.
(set-logic ALL)
(declare-const b Int)
(declare-fun isprint (Int) Bool)
(define-fun special ((x Int)) Bool (or (= x 10) (= x 13) (= x 92) (= x 34)))
(define-fun hexdig ((v Int)) Int (ite (< v 10) (+ 48 v) (+ 87 v)))
(define-fun unhex ((c Int)) Int (ite (<= c 57) (- c 48) (- c 87)))
; token
(define-fun tlen ((x Int)) Int (ite (special x) 2 (ite (isprint x) 1 4)))
(define-fun t0 ((x Int)) Int (ite (special x) 92 (ite (isprint x) x 92)))
(define-fun t1 ((x Int)) Int (ite (= x 10) 110 (ite (= x 13) 114 (ite (= x 92) 92 (ite (= x 34) 34 120)))))
(define-fun t2 ((x Int)) Int (hexdig (div x 16)))
(define-fun t3 ((x Int)) Int (hexdig (mod x 16)))
; decoder
(define-fun dlen ((c0 Int) (c1 Int)) Int (ite (not (= c0 92)) 1 (ite (= c1 120) 4 2)))
(define-fun dval ((c0 Int) (c1 Int) (c2 Int) (c3 Int)) Int
  (ite (not (= c0 92)) c0 (ite (= c1 110) 10 (ite (= c1 114) 13 (ite (= c1 92) 92 (ite (= c1 34) 34 (+ (* 16 (unhex c2)) (unhex c3))))))))
(assert (and (<= 0 b) (<= b 255)))
; a printable byte that is not special is never the escape character itself (92 is special)
(assert (not (and (= (dlen (t0 b) (t1 b)) (tlen b)) (= (dval (t0 b) (t1 b) (t2 b) (t3 b)) b))))
(check-sat)
